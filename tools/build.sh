#!/bin/bash
# Build the harness executables from /repo's current working tree (overlay build; /repo is not written).
# usage: build.sh [vcheck|fakegit|sizer|all]
set -e
export GOFLAGS=-mod=mod GOPROXY=off GOSUMDB=off GOTOOLCHAIN=local
H=/verif/harness
B=/verif/.build
mkdir -p $B
[ -f $H/shimpipe/pipe/command.go ] || /verif/tools/gen_shimpipe.sh
cp /repo/go.sum $H/go.sum
what=${1:-all}
python3 - <<PY
import json,os
H="$H"
rep={}
for d,_,fs in os.walk(H+"/overlay"):
    for f in fs:
        src=os.path.join(d,f)
        rel=os.path.relpath(src,H+"/overlay")
        rep["/repo/"+rel]=src
json.dump({"Replace":rep},open("$B/overlay.json","w"),indent=1)
PY
cd $H
if [ "$what" = all ] || [ "$what" = vcheck ]; then
  go build -tags verif -overlay $B/overlay.json -o $B/vcheck ./cmd/vcheck || { echo "HARNESS-ERROR: harness build failed"; exit 2; }
fi
if [ "$what" = narrow ]; then
  # width-narrowed copy of counts.go (8/16-bit counters), generated from the current file and overlaid into the whole program
  mkdir -p $B/narrow
  sed -e 's/^type Count32 uint32$/type Count32 uint8/' -e 's/^type Count64 uint64$/type Count64 uint16/' \
      -e 's/math\.MaxUint32/math.MaxUint8/g' -e 's/math\.MaxUint64/math.MaxUint16/g' /repo/counts/counts.go > $B/narrow/counts.go
  grep -q '^type Count32 uint8$' $B/narrow/counts.go && grep -q '^type Count64 uint16$' $B/narrow/counts.go || { echo "HARNESS-ERROR: cannot narrow counts.go (type definitions not found)"; exit 2; }
  python3 - <<PY
import json
o=json.load(open("$B/overlay.json")); o["Replace"]["/repo/counts/counts.go"]="$B/narrow/counts.go"
json.dump(o,open("$B/overlay-narrow.json","w"),indent=1)
PY
  go build -tags verif -overlay $B/overlay-narrow.json -o $B/vcheck-narrow ./cmd/vcheck || { echo "HARNESS-ERROR: narrowed harness build failed"; exit 2; }
fi
if [ "$what" = sched ]; then
  # scheduler build: the concurrent sources of /repo (and the go-pipe shim) are rewritten from their
  # current text so that every synchronisation operation is a scheduling point of verifsched
  mkdir -p $B/sched/repo $B/sched/pipe
  go build -o $B/rewrite ./cmd/rewrite || { echo "HARNESS-ERROR: rewrite tool build failed"; exit 2; }
  python3 - <<PY
import json,subprocess,os,sys
B="$B"; H="$H"
o=json.load(open(B+"/overlay.json"))
files=["meter/meter.go","sizes/graph.go","sizes/path_resolver.go","git/obj_iter.go","git/batch_obj_iter.go","git/ref_iter.go","git/git_bin.go"]
for f in files:
    src="/repo/"+f
    if not os.path.exists(src): continue
    dst=B+"/sched/repo/"+f.replace("/","__")
    r=subprocess.run([B+"/rewrite",src,dst],capture_output=True,text=True)
    if r.returncode!=0:
        print("HARNESS-ERROR: rewrite of",src,"failed:",r.stderr); sys.exit(2)
    o["Replace"][src]=dst
for f in os.listdir(H+"/shimpipe/pipe"):
    src=H+"/shimpipe/pipe/"+f
    dst=B+"/sched/pipe/"+f
    r=subprocess.run([B+"/rewrite",src,dst],capture_output=True,text=True)
    if r.returncode!=0:
        print("HARNESS-ERROR: rewrite of",src,"failed:",r.stderr); sys.exit(2)
    o["Replace"][src]=dst
json.dump(o,open(B+"/overlay-sched.json","w"),indent=1)
PY
  [ $? = 0 ] || exit 2
  go build -tags verif -overlay $B/overlay-sched.json -o $B/vcheck-sched ./cmd/vcheck || { echo "HARNESS-ERROR: scheduler harness build failed"; exit 2; }
  # free-running race-detector build of the CLI (auxiliary pass of C17: sampling, decides nothing by silence)
  (cd /repo && go build -race -o $B/git-sizer-race . ) || { echo "HARNESS-ERROR: -race build failed"; exit 2; }
  # free-running race-detector build of a driver of the progress meter (auxiliary pass of C18)
  go build -race -o $B/meterrace ./cmd/meterrace || { echo "HARNESS-ERROR: -race build of the meter driver failed"; exit 2; }
fi
if [ "$what" = all ] || [ "$what" = fakegit ]; then
  go build -o $B/fakegit/git ./cmd/fakegit || { echo "HARNESS-ERROR: fakegit build failed"; exit 2; }
fi
if [ "$what" = all ] || [ "$what" = sizer ]; then
  (cd /repo && go build -o $B/git-sizer . ) || { echo "HARNESS-ERROR: git-sizer build failed"; exit 2; }
fi
