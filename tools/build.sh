#!/bin/bash
# Build the harness executables from /repo's current working tree (overlay build; /repo is not written).
# usage: build.sh [vcheck|fakegit|sizer|all]
set -e
export GOFLAGS=-mod=mod GOPROXY=off GOSUMDB=off GOTOOLCHAIN=local
H=/verif/harness
B=/verif/.build
mkdir -p $B
[ -f $H/shimpipe/pipe/command.go ] || /verif/tools/gen_shimpipe.sh
cp /repo/go.sum $H/go.sum
what=${1:-all}
python3 - <<PY
import json,os
H="$H"
rep={}
for d,_,fs in os.walk(H+"/overlay"):
    for f in fs:
        src=os.path.join(d,f)
        rel=os.path.relpath(src,H+"/overlay")
        rep["/repo/"+rel]=src
json.dump({"Replace":rep},open("$B/overlay.json","w"),indent=1)
PY
cd $H
if [ "$what" = all ] || [ "$what" = vcheck ]; then
  go build -tags verif -overlay $B/overlay.json -o $B/vcheck ./cmd/vcheck || { echo "HARNESS-ERROR: harness build failed"; exit 2; }
fi
if [ "$what" = all ] || [ "$what" = fakegit ]; then
  go build -o $B/fakegit/git ./cmd/fakegit || { echo "HARNESS-ERROR: fakegit build failed"; exit 2; }
fi
if [ "$what" = all ] || [ "$what" = sizer ]; then
  (cd /repo && go build -o $B/git-sizer . ) || { echo "HARNESS-ERROR: git-sizer build failed"; exit 2; }
fi
