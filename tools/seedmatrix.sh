#!/bin/bash
# Apply every filed seeded change to /repo in turn, run the quick check of the property it breaks,
# record whether it is reported, and undo it. Writes /verif/seeded/MATRIX.txt and updates meta.json.
# Must be run with a clean /repo working tree.
cd /verif
[ -z "$(git -C /repo status --short)" ] || { echo "/repo is not clean"; exit 2; }
head0=$(git -C /repo rev-parse HEAD)
[ "$(git -C /repo symbolic-ref -q --short HEAD)" = main ] || { echo "/repo is not on main"; exit 2; }
out=/verif/seeded/MATRIX.txt
if [ -n "$SEEDS" ]; then cp $out $out.tmp; else : > $out.tmp; fi
# the runs below rewrite evidence files with results from mutated trees: keep the real ones
rm -rf /verif/.build/evidence.keep && cp -r /verif/evidence /verif/.build/evidence.keep
for d in seeded/${SEEDS:-C*}/; do
  [ -f "$d/patch.diff" ] || { echo "no such seed: $d"; continue; }
  s=$(basename $d); prop=${s%%-*}
  base=""
  if ! git -C /repo apply --check /verif/$d/patch.diff 2>/dev/null; then
     # seeds written against the pre-fix snapshot of a file that a later "fix:" commit rewrote
     f=$(grep -m1 '^+++ b/' $d/patch.diff | sed 's|+++ b/||')
     [ -n "$f" ] || { echo "$s: patch names no file" >> $out.tmp; continue; }
     git -C /repo checkout -q 446285c -- "$f" && base="(on pre-fix $f) "
     git -C /repo apply --check /verif/$d/patch.diff 2>/dev/null || { echo "$s: patch does not apply" >> $out.tmp; git -C /repo checkout -q HEAD -- . ; continue; }
  fi
  git -C /repo apply /verif/$d/patch.diff
  res=$(timeout 2400 ./check $prop quick 2>&1)
  rc=$?
  by="$prop"
  if [ $rc != 1 ] && [ "${NEIGHBOURS:-1}" != 0 ]; then
    # not reported by the check of the property it was written for: try the checks of neighbouring properties
    for alt in C01 C09 C13 C10 C07 C12 C14 C05 C19 C15 C11 C08 C06 C16 C02 C03 C04 C18 C17; do
      [ $alt = $prop ] && continue
      res2=$(timeout 2400 ./check $alt quick 2>&1); rc2=$?
      if [ $rc2 = 1 ]; then res="$res2"; rc=1; by="$alt"; break; fi
    done
  fi
  git -C /repo checkout -q HEAD -- .
  line=$(echo "$res" | grep -m1 -A1 '^VIOLATION' | tr '\n' ' ' | cut -c1-260)
  if [ $rc = 1 ]; then verdict="DETECTED by $by quick"; else verdict="NOT detected by $prop quick nor by the quick check of any other property (exit $rc)"; fi
  grep -v "^$s: " $out.tmp > $out.tmp2; mv $out.tmp2 $out.tmp
  echo "$s: $base$verdict :: $line" >> $out.tmp
  python3 - "$d" "$prop" "$rc" "$by" <<'PY'
import json,sys
d,prop,rc=sys.argv[1],sys.argv[2],int(sys.argv[3])
p=d+"/meta.json"; m=json.load(open(p))
m["detected_by"]=[f"./check {sys.argv[4]} quick"] if rc==1 else []
json.dump(m,open(p,"w"),indent=1)
PY
done
rm -rf /verif/evidence && mv /verif/.build/evidence.keep /verif/evidence
mv $out.tmp $out
cat $out | cut -c1-200
test "$(git -C /repo rev-parse HEAD)" = "$head0" || echo "WARNING: /repo HEAD moved during the matrix run"
