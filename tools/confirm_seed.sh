#!/bin/bash
# confirm_seed.sh <ID> <X> "<what it needs>" : confirm a seeded change in its scratch worktree and file it under /verif/seeded/<ID>-<X>/
# Confirms: patch applies, builds, the 53 baseline tests pass (only the 3 always-failing ones fail),
# the demonstration fails with the change and passes without it.
ID=$1; X=$2; NEEDS=$3
WT=/tmp/${PREFIX:-seed}-$ID; OUT=/tmp/${PREFIX:-seed}-$ID-out; LABEL=${LABEL:-$X}
export GOFLAGS=-mod=mod GOPROXY=off GOSUMDB=off GOTOOLCHAIN=local
cd $WT || exit 2
git checkout -q -- . ; git clean -fdq
demo() {
  if [ -f $OUT/$X.demo.sh ]; then bash $OUT/$X.demo.sh $WT >$OUT/$X.demo.log 2>&1; return $?; fi
  f=$(ls $OUT/$X.demo*.go | head -1)
  # Go test demo placed in the root package
  pkgline=$(grep -m1 '^package' $f)
  dest=$WT/zz_seed_demo_test.go
  case "$pkgline" in *refopts*) dest=$WT/internal/refopts/zz_seed_demo_test.go;; *sizes*) dest=$WT/sizes/zz_seed_demo_test.go;; *"package git"*) dest=$WT/git/zz_seed_demo_test.go;; *"package meter"*) dest=$WT/meter/zz_seed_demo_test.go;; *"package counts"*) dest=$WT/counts/zz_seed_demo_test.go;; esac
  cp $f $dest
  (cd $(dirname $dest) && go test -vet=off -count=1 -run 'Demo|Seed|TestC[01]' . ) >$OUT/$X.demo.log 2>&1; rc=$?
  rm -f $dest; return $rc
}
git apply $OUT/$X.patch.diff || { echo "patch does not apply"; exit 1; }
go build ./... || { echo "does not build"; git checkout -q -- .; exit 1; }
go test -vet=off -count=1 ./... > $OUT/$X.suite.log 2>&1
bad=$(grep -E '^--- FAIL|^\s+--- FAIL' $OUT/$X.suite.log | grep -vE 'TestExec|TestRefSelections|TestRefgroups' | wc -l)
okpk=$(grep -cE '^ok\s+github.com/github/git-sizer/(counts|git)\s' $OUT/$X.suite.log)
demo; with=$?
git apply -R $OUT/$X.patch.diff; git checkout -q -- .; git clean -fdq
demo; without=$?
echo "suite: unexpected failures=$bad ok-packages(counts,git)=$okpk ; demo with change exit=$with ; without exit=$without"
if [ "$bad" = 0 ] && [ "$okpk" = 2 ] && [ $with != 0 ] && [ $without = 0 ]; then
  D=/verif/seeded/$ID-$LABEL; mkdir -p $D
  cp $OUT/$X.patch.diff $D/patch.diff
  for f in $OUT/$X.demo*; do [ "${f##*.}" = log ] || cp $f $D/; done
  [ -f $OUT/$X.meta.txt ] && cp $OUT/$X.meta.txt $D/meta.txt
  python3 - <<PY
import json
json.dump({"property":"$ID","id":"$ID-$LABEL","breaks":"$ID","needs":"""$NEEDS""",
 "confirmed":{"patch_applies":True,"builds":True,"baseline_53_pass":True,"demo_fails_with_change":True,"demo_passes_without":True,
  "commands":"tools/confirm_seed.sh $ID $X (git apply; go build ./...; go test -vet=off -count=1 ./...; demo; git apply -R; demo)"},
 "detected_by":[]}, open("$D/meta.json","w"), indent=1)
PY
  echo "KEPT $D"
else
  echo "NOT KEPT"; tail -5 $OUT/$X.demo.log
fi
