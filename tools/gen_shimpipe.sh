#!/bin/bash
# Generate /verif/harness/shimpipe from the go-pipe v1.0.2 sources in the module cache.
set -e
export GOFLAGS=-mod=mod GOPROXY=off GOSUMDB=off GOTOOLCHAIN=local
H=/verif/harness
SRC=$(go env GOMODCACHE)/github.com/github/go-pipe@v1.0.2/pipe
[ -d "$SRC" ] || { echo "HARNESS-ERROR: go-pipe v1.0.2 not in module cache" >&2; exit 2; }
rm -rf $H/shimpipe && mkdir -p $H/shimpipe/pipe
for f in pipeline.go function.go scanner.go linewise.go stage.go filter-error.go iocopier.go; do
  cp $SRC/$f $H/shimpipe/pipe/$f; chmod u+w $H/shimpipe/pipe/$f
done
cp $H/shimsrc/command.go $H/shimpipe/pipe/command.go
printf 'module github.com/github/go-pipe\n\ngo 1.19\n' > $H/shimpipe/go.mod
