#!/usr/bin/env python3
"""Print the prompt given to an independent sub-agent that seeds a property-breaking change.
usage: seedprompt.py <property id> <worktree dir>"""
import json, sys
pid, wt = sys.argv[1], sys.argv[2]
earlier = sys.argv[3] if len(sys.argv) > 3 else ""
for l in open('/verif/properties.jsonl'):
    p = json.loads(l)
    if p['id'] == pid:
        break
else:
    sys.exit('no such property')
print(f"""You are helping to evaluate a verification effort by playing the role of a developer who introduces a subtle regression.

The project is github/git-sizer (a Go CLI that scans a local Git repository through `git` subprocesses and reports size metrics). You have your OWN scratch git worktree of it at {wt} -- work ONLY inside that directory (plus temp dirs you create under {wt}-tmp, which you must delete at the end). Do NOT read or touch /verif or /repo, and do not commit anything.

Environment (sandbox, no network). Prefix every shell command that uses Go with:
  export GOFLAGS=-mod=mod GOPROXY=off GOSUMDB=off GOTOOLCHAIN=local
Go is 1.23.5, git is 2.39.5. The existing test suite is run with
  cd {wt} && go test -vet=off -count=1 ./...
Three tests (TestExec, TestRefSelections, TestRefgroups) ALWAYS fail in this sandbox even on the pristine tree because they need a prebuilt bin/git-sizer; ignore those three. All other tests (53 of them, in packages ., counts, git) pass on the pristine tree and MUST still pass after your change.

The semantic property of git-sizer that your change must break:

  Title: {p['title']}
  Statement: {p['statement']}
  Quantified over: {p['quantifier']['text']}

{("An earlier round already produced the following changes for this property; yours must use DIFFERENT mechanisms and preferably different code locations:" + chr(10) + earlier + chr(10)) if earlier else ""}
Your task: produce TWO independent changes (A and B; different mechanisms, preferably different files/functions) to the non-test Go source of git-sizer, each of which
  1. still compiles (`go build ./...` and `go vet` need not be clean, but build must succeed),
  2. still passes the 53 existing tests (run them and check!),
  3. makes the property above FALSE for some input / history / ordering / fault / configuration,
  4. needs something SPECIFIC to manifest -- a particular enumeration order or interleaving, a fault at a particular point, a multi-step sequence, an unusual-but-legal input (particular graph shape, sizes, names, option order, config contents), or two cooperating edits that each look fine alone. It must NOT be a change that any ordinary run on an ordinary repository exposes at once (e.g. do not simply make a count always wrong), and it should look like a plausible refactoring/optimisation mistake a real developer could make, small (a few lines).
  5. must not edit any *_test.go file, go.mod or go.sum.

For each change also write a demonstration: a standalone Go test file or a small shell/Go program that FAILS (non-zero exit) with the change applied and PASSES on the pristine tree. The demonstration should build whatever repository/input it needs itself (with the real `git` in a temp dir, or by calling the Go packages directly) and should state in a comment what it needs in order to manifest. Verify both directions yourself with `git diff > file; git checkout -- .; git apply file` / `git apply -R file` -- do NOT use `git stash` (the stash is shared with other worktrees of this repository and other people use them concurrently) -- and show the commands you ran.

Deliver, inside {wt}-out/ (create it):
  A.patch.diff, B.patch.diff  -- `git diff` output against the pristine tree (each applies alone with `git apply` to a pristine tree)
  A.demo.*, B.demo.*          -- the demonstrations (if a Go test, say in which package dir it must be placed and how to run it)
  A.meta.txt, B.meta.txt      -- 5-10 lines: what the change is, which part of the property it breaks, what is needed for it to manifest, exact commands to run the demo, and the observed output with and without the change.
Leave the worktree itself pristine at the end (git checkout -- . ; remove untracked files), and delete {wt}-tmp. Your final message should summarise the two changes in a few lines each.""")
