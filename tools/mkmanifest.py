#!/usr/bin/env python3
"""Regenerate MANIFEST.json from tools/manifest_src.json (keeps not_applicable current)."""
import json
src = json.load(open('/verif/tools/manifest_src.json'))
props = [json.loads(l)['id'] for l in open('/verif/properties.jsonl')]
checks = []
for pid in props:
    c = src['checks'].get(pid)
    if not c: continue
    checks.append({
        "property_id": pid,
        "quick_cmd": f"./check {pid} quick",
        "thorough_cmd": f"./check {pid} thorough",
        "evidence_file": f"/verif/evidence/{pid}.json",
        "replay_cmd_template": f"./check {pid} --replay {{path}}",
        "engine": c["engine"],
        "level_claimed": {"category": c["level"], "text": c["text"], "design_ref": f"DESIGN.md section 5 ({pid})"},
        "level_note": c["note"],
        "technique": c["technique"],
    })
na = [{"property_id": p, "reason": src['not_applicable'].get(p, "check not built yet in this round; see DESIGN.md section 8 (build order)")}
      for p in props if p not in src['checks']]
m = {
 "version": 1,
 "setup_cmd": "./setup.sh",
 "hooks": {"guard": "verif", "enable": "go build -tags verif -overlay /verif/.build/overlay.json (files under /verif/harness/overlay are overlaid into /repo's packages at build time; /repo itself carries no hook code)",
           "baseline_off_cmd": "cd /repo && GOFLAGS=-mod=mod GOPROXY=off GOSUMDB=off GOTOOLCHAIN=local go test -vet=off -count=1 ./...",
           "source_commits": src.get("source_commits", []), "add_only": True},
 "engines": src["engines"],
 "checks": checks,
 "notes": src["notes"],
 "not_applicable": na,
}
json.dump(m, open('/verif/MANIFEST.json','w'), indent=1)
print("checks:", [c['property_id'] for c in checks], "n/a:", [x['property_id'] for x in na])
