#!/bin/bash
# seedbatch.sh <ID> <labelA> <labelB> "<needs A>" "<needs B>": confirm both seeds of a round in the property's scratch worktree
# (PREFIX env = worktree prefix) and file them; the matrix is run separately (it needs /repo exclusively).
ID=$1; LA=$2; LB=$3
LABEL=$LA /verif/tools/confirm_seed.sh $ID A "$4" 2>&1 | tail -2
LABEL=$LB /verif/tools/confirm_seed.sh $ID B "$5" 2>&1 | tail -2
