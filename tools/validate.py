#!/opt/veriftools/pyvenv/bin/python
import json,jsonschema,sys,os
jsonschema.validate(json.load(open('/verif/MANIFEST.json')), json.load(open('/root/.vp/MANIFEST.schema.json')))
m=json.load(open('/verif/MANIFEST.json'))
es=json.load(open('/root/.vp/EVIDENCE.schema.json'))
for c in m['checks']:
    p=c['evidence_file']
    if os.path.exists(p):
        jsonschema.validate(json.load(open(p)), es); print('ok', p)
    else: print('MISSING', p)
print('manifest valid')
