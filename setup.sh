#!/bin/bash
# setup_cmd: build the framework from files on disk only (offline) and warm the build cache.
set -e
cd /verif
export GOFLAGS=-mod=mod GOPROXY=off GOSUMDB=off GOTOOLCHAIN=local
tools/gen_shimpipe.sh
tools/build.sh all
tools/build.sh narrow
tools/build.sh sched
echo setup ok
