// Package mrepo is the model repository: a set of git objects with their exact
// serialisation (so ids are real SHA-1s), references and config entries. It
// shares no code with git-sizer.
package mrepo

import (
	"bytes"
	"crypto/sha1"
	"encoding/hex"
	"fmt"
	"sort"
	"strings"
)

type Kind int

const (
	Blob Kind = iota
	Tree
	Commit
	Tag
)

func (k Kind) String() string {
	return [...]string{"blob", "tree", "commit", "tag"}[k]
}

// ID is a 40-hex object id.
type ID string

type Entry struct {
	Mode  uint32 // e.g. 0o100644, 0o40000, 0o120000, 0o160000
	Name  string
	Child ID
}

func (e Entry) IsTree() bool    { return e.Mode&0o170000 == 0o40000 }
func (e Entry) IsGitlink() bool { return e.Mode&0o170000 == 0o160000 }
func (e Entry) IsSymlink() bool { return e.Mode&0o170000 == 0o120000 }

type Object struct {
	Kind Kind
	ID   ID
	// Body is the object's content. For a virtual blob it is nil and Size is
	// the claimed size.
	Body    []byte
	Size    uint64
	Virtual bool

	// tree
	Entries []Entry
	// commit
	TreeID  ID
	Parents []ID
	Time    int64
	// tag
	Target     ID
	TargetKind Kind
	TagName    string
}

type Ref struct {
	Name string
	ID   ID
}

type ConfigEntry struct{ Key, Value string }

type Repo struct {
	Objects map[ID]*Object
	Order   []ID // insertion order (deterministic iteration)
	Refs    []Ref
	Head    string // "ref: refs/heads/x" or an id; "" = unborn refs/heads/master
	Config  []ConfigEntry
	// Missing objects: present in the graph (ids referenced) but physically absent.
	Missing map[ID]bool
}

func New() *Repo {
	return &Repo{Objects: map[ID]*Object{}, Missing: map[ID]bool{}}
}

func HashObject(kind string, body []byte) ID {
	h := sha1.New()
	fmt.Fprintf(h, "%s %d\x00", kind, len(body))
	h.Write(body)
	return ID(hex.EncodeToString(h.Sum(nil)))
}

func (r *Repo) add(o *Object) ID {
	if old, ok := r.Objects[o.ID]; ok {
		_ = old
		return o.ID
	}
	r.Objects[o.ID] = o
	r.Order = append(r.Order, o.ID)
	return o.ID
}

func (r *Repo) AddBlob(content []byte) ID {
	id := HashObject("blob", content)
	return r.add(&Object{Kind: Blob, ID: id, Body: content, Size: uint64(len(content))})
}

// AddVirtualBlob adds a blob whose content is never materialised; its id is
// derived from the label, its size is claimed.
func (r *Repo) AddVirtualBlob(label string, size uint64) ID {
	id := HashObject("vblob", []byte(fmt.Sprintf("%s/%d", label, size)))
	return r.add(&Object{Kind: Blob, ID: id, Size: size, Virtual: true})
}

// entrySortKey: git sorts tree entries as if directory names had a trailing '/'.
func entrySortKey(e Entry) string {
	if e.IsTree() {
		return e.Name + "/"
	}
	return e.Name
}

func SerialiseTree(entries []Entry) []byte {
	var b bytes.Buffer
	for _, e := range entries {
		fmt.Fprintf(&b, "%o %s\x00", e.Mode, e.Name)
		raw, err := hex.DecodeString(string(e.Child))
		if err != nil || len(raw) != 20 {
			panic("bad child id " + string(e.Child))
		}
		b.Write(raw)
	}
	return b.Bytes()
}

// AddTree adds a tree with the entries sorted canonically.
func (r *Repo) AddTree(entries []Entry) ID {
	es := append([]Entry(nil), entries...)
	sort.SliceStable(es, func(i, j int) bool { return entrySortKey(es[i]) < entrySortKey(es[j]) })
	return r.AddTreeRaw(es)
}

// AddTreeRaw adds a tree with entries in the given order.
func (r *Repo) AddTreeRaw(es []Entry) ID {
	body := SerialiseTree(es)
	id := HashObject("tree", body)
	return r.add(&Object{Kind: Tree, ID: id, Body: body, Size: uint64(len(body)), Entries: es})
}

type CommitSpec struct {
	Tree    ID
	Parents []ID
	Time    int64
	// AuthorTime defaults to Time.
	AuthorTime int64
	Message    string // full message after the blank line; if NoMessage the blank line is omitted too
	NoBlank    bool   // omit the blank line and message entirely
	Extra      string // extra header text inserted after committer (must end in \n if non-empty)
	PreExtra   string // extra header text inserted before "tree" (normally empty)
}

func (r *Repo) AddCommit(s CommitSpec) ID {
	var b bytes.Buffer
	b.WriteString(s.PreExtra)
	fmt.Fprintf(&b, "tree %s\n", s.Tree)
	for _, p := range s.Parents {
		fmt.Fprintf(&b, "parent %s\n", p)
	}
	at := s.AuthorTime
	if at == 0 {
		at = s.Time
	}
	fmt.Fprintf(&b, "author A U Thor <author@example.com> %d +0000\n", at)
	fmt.Fprintf(&b, "committer C O Mitter <committer@example.com> %d +0000\n", s.Time)
	b.WriteString(s.Extra)
	if !s.NoBlank {
		b.WriteString("\n")
		b.WriteString(s.Message)
	}
	body := b.Bytes()
	id := HashObject("commit", body)
	return r.add(&Object{Kind: Commit, ID: id, Body: body, Size: uint64(len(body)),
		TreeID: s.Tree, Parents: append([]ID(nil), s.Parents...), Time: s.Time})
}

type TagSpec struct {
	Target  ID
	Name    string
	Time    int64
	Message string
	NoBlank bool
	Extra   string
}

func (r *Repo) AddTag(s TagSpec) ID {
	t, ok := r.Objects[s.Target]
	if !ok {
		panic("tag target unknown")
	}
	var b bytes.Buffer
	fmt.Fprintf(&b, "object %s\ntype %s\ntag %s\n", s.Target, t.Kind, s.Name)
	fmt.Fprintf(&b, "tagger T Agger <tagger@example.com> %d +0000\n", s.Time)
	b.WriteString(s.Extra)
	if !s.NoBlank {
		b.WriteString("\n")
		b.WriteString(s.Message)
	}
	body := b.Bytes()
	id := HashObject("tag", body)
	return r.add(&Object{Kind: Tag, ID: id, Body: body, Size: uint64(len(body)),
		Target: s.Target, TargetKind: t.Kind, TagName: s.Name})
}

func (r *Repo) SetRef(name string, id ID) {
	for i := range r.Refs {
		if r.Refs[i].Name == name {
			r.Refs[i].ID = id
			return
		}
	}
	r.Refs = append(r.Refs, Ref{name, id})
	sort.Slice(r.Refs, func(i, j int) bool { return r.Refs[i].Name < r.Refs[j].Name })
}

func (r *Repo) RefID(name string) (ID, bool) {
	for _, x := range r.Refs {
		if x.Name == name {
			return x.ID, true
		}
	}
	return "", false
}

// Short returns a short printable form of the id for messages.
func (id ID) Short() string {
	if len(id) > 7 {
		return string(id[:7])
	}
	return string(id)
}

// Describe returns a compact textual dump of the repository (for replay files
// and evidence samples).
func (r *Repo) Describe() string {
	var b strings.Builder
	for _, id := range r.Order {
		o := r.Objects[id]
		switch o.Kind {
		case Blob:
			fmt.Fprintf(&b, "blob %s size=%d virt=%v\n", id.Short(), o.Size, o.Virtual)
		case Tree:
			fmt.Fprintf(&b, "tree %s [", id.Short())
			for i, e := range o.Entries {
				if i > 0 {
					b.WriteString(", ")
				}
				fmt.Fprintf(&b, "%o %q->%s", e.Mode, e.Name, e.Child.Short())
			}
			b.WriteString("]\n")
		case Commit:
			ps := []string{}
			for _, p := range o.Parents {
				ps = append(ps, p.Short())
			}
			fmt.Fprintf(&b, "commit %s tree=%s parents=%v time=%d size=%d\n", id.Short(), o.TreeID.Short(), ps, o.Time, o.Size)
		case Tag:
			fmt.Fprintf(&b, "tag %s -> %s %s size=%d\n", id.Short(), o.TargetKind, o.Target.Short(), o.Size)
		}
	}
	for _, x := range r.Refs {
		fmt.Fprintf(&b, "ref %s -> %s\n", x.Name, x.ID.Short())
	}
	return b.String()
}
