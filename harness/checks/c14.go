package checks

import (
	"bytes"
	"fmt"
	"os"
	"path/filepath"
	"strconv"
	"strings"
	"time"

	"verif/cli"
	"verif/explore"
	"verif/gen"
	"verif/mrepo"
	"verif/realgit"
)

// c14Repo has metrics at levels of concern in [0,1), [1,1.5), [1.5,2.5),
// [2.5,30) and above 30, so that thresholds 0/1/1.5/2.5/30 all give different
// tables; plus references and nested refgroups for the spelling pairs.
func c14Repo() *mrepo.Repo {
	r := mrepo.New()
	lv := gen.AddLeaves(r)
	cur := r.AddTree([]mrepo.Entry{{Mode: 0o100644, Name: "f", Child: lv.BlobA}})
	for d := 0; d < 31; d++ {
		cur = r.AddTree([]mrepo.Entry{{Mode: 0o40000, Name: strings.Repeat("d", 100), Child: cur}})
	}
	c0 := r.AddCommit(mrepo.CommitSpec{Tree: cur, Time: gen.T0, Message: "deep\n"})
	small := r.AddTree([]mrepo.Entry{{Mode: 0o100644, Name: "a", Child: lv.BlobA}})
	var ps []mrepo.ID
	for i := 0; i < 12; i++ {
		ps = append(ps, r.AddCommit(mrepo.CommitSpec{Tree: small, Time: gen.T0 + int64(i), Message: fmt.Sprintf("p%d\n", i)}))
	}
	m := r.AddCommit(mrepo.CommitSpec{Tree: small, Parents: ps, Time: gen.T0 + 100, Message: "octopus\n"})
	ta := r.AddTag(mrepo.TagSpec{Target: m, Name: "ta", Time: gen.T0, Message: "ta\n"})
	tb := r.AddTag(mrepo.TagSpec{Target: ta, Name: "tb", Time: gen.T0, Message: "tb\n"})
	x1 := r.AddCommit(mrepo.CommitSpec{Tree: r.AddTree([]mrepo.Entry{{Mode: 0o100644, Name: "x1", Child: lv.BlobB}}), Time: gen.T0 + 200, Message: "x1\n"})
	x2 := r.AddCommit(mrepo.CommitSpec{Tree: r.AddTree([]mrepo.Entry{{Mode: 0o100644, Name: "x2", Child: lv.BlobC}}), Time: gen.T0 + 300, Message: "x2\n"})
	r.SetRef("refs/heads/main", c0)
	r.SetRef("refs/heads/octopus", m)
	r.SetRef("refs/heads/release/0.1", x1)
	r.SetRef("refs/heads/release/1.0", m)
	r.SetRef("refs/tags/release/0.9", x2)
	r.SetRef("refs/tags/ta", ta)
	r.SetRef("refs/tags/tb", tb)
	r.SetRef("refs/remotes/origin/main", c0)
	r.Head = "ref: refs/heads/main"
	return r
}

var c14GroupConfig = []mrepo.ConfigEntry{
	{Key: "refgroup.rel.include", Value: "refs/heads/release"},
	{Key: "refgroup.rel.old.includeRegexp", Value: `refs/[^/]+/release/0\..*`},
	{Key: "refgroup.rel.new.include", Value: "refs/heads/release/1.0"},
	// the subsection (the group's name) is case-sensitive
	{Key: "refgroup.QA.include", Value: "refs/heads/release/0.9"},
	{Key: "refgroup.rel.Old2.include", Value: "refs/heads/release/0.9"},
}

type c14Run struct {
	gd      string
	cache   map[string]cli.Result
	sh      *explore.Shard
	baseCfg string
	// env: additional environment of the next runs (command-scope configuration)
	env []string
}

func (c *c14Run) setConfig(entries []mrepo.ConfigEntry) {
	os.WriteFile(filepath.Join(c.gd, "config"), []byte(c.baseCfg+realgit.ConfigText(c14GroupConfig)+realgit.ConfigText(entries)), 0o644)
}

func (c *c14Run) run(args ...string) cli.Result {
	c.sh.C.Evals++
	return cli.Run(c.gd, "", c.env, 90*time.Second, args...)
}

// canonical: the run with every setting spelled out and no sizer.* configuration.
func (c *c14Run) canonical(args ...string) cli.Result {
	k := strings.Join(args, "\x00")
	if r, ok := c.cache[k]; ok {
		return r
	}
	c.setConfig(nil)
	r := c.run(args...)
	c.cache[k] = r
	return r
}

func isCleanError(r cli.Result) bool {
	return r.Exit != 0 && !r.TimedOut && len(r.Stdout) == 0 && hasErrorMessage(r.Stderr)
}

type c14Opt struct {
	argv []string
	val  string // effective value this option sets
}

// gitBool interprets a configuration value the way git-config(1) documents
// booleans: true/yes/on and false/no/off in any case, integers (0 = false), the
// empty string (false) and a key without a value (true).
func gitBool(v string) (val, ok bool) {
	switch strings.ToLower(v) {
	case "true", "yes", "on", "\x00novalue":
		return true, true
	case "false", "no", "off", "":
		return false, true
	}
	if n, err := strconv.Atoi(v); err == nil {
		return n != 0, true
	}
	return false, false
}

func c14Seqs(opts []c14Opt, maxLen int, f func(seq []c14Opt)) {
	var rec func(cur []c14Opt)
	rec = func(cur []c14Opt) {
		f(cur)
		if len(cur) == maxLen {
			return
		}
		for _, o := range opts {
			rec(append(append([]c14Opt(nil), cur...), o))
		}
	}
	rec(nil)
}

func c14Worker(sh *explore.Shard) {
	dir := scratch("c14")
	defer os.RemoveAll(dir)
	gd := filepath.Join(dir, "repo.git")
	if err := realgit.Materialise(c14Repo(), gd); err != nil {
		panic(err)
	}
	run := &c14Run{gd: gd, cache: map[string]cli.Result{}, sh: sh, baseCfg: "[core]\n\trepositoryformatversion = 0\n\tbare = true\n"}
	maxLen := 2
	if sh.Tier == "thorough" {
		maxLen = 3
	}
	var idx int64
	mk := func(class, msg string, args []string, cfg []mrepo.ConfigEntry) {
		sh.C.Violate(explore.Violation{Property: "C14", Class: class, Msg: fmt.Sprintf("%s [args %q, config %v]", msg, args, cfg),
			Case: caseJSON(sh.Index(), map[string]any{"args": args, "config": fmt.Sprint(cfg)})})
	}
	// generic family runner: cfgKey/cfgValues (nil value = absent; several values = multi-valued),
	// option alphabet with effective values, canonical argv for an effective value,
	// validity of a config value, default.
	family := func(name, cfgKey string, cfgValues [][]string, opts []c14Opt, base []string, canon func(val string) []string,
		valid func(v string) bool, def string, observe func(got, want cli.Result) string) {
		for _, cv := range cfgValues {
			for _, keySpelling := range []string{cfgKey, strings.ToUpper(cfgKey[:1]) + cfgKey[1:]} {
				if keySpelling != cfgKey && len(cv) != 1 {
					continue
				}
				var cfg []mrepo.ConfigEntry
				for _, v := range cv {
					cfg = append(cfg, mrepo.ConfigEntry{Key: keySpelling, Value: v})
				}
				ml := maxLen
				if name == "threshold" && len(cv) <= 1 && keySpelling == cfgKey && (len(cv) == 0 || cv[0] == "0") {
					ml = 3 // "the last one given wins" needs a repeated option with another in between
				}
				c14Seqs(opts, ml, func(seq []c14Opt) {
					idx++
					if !sh.Mine(idx) || sh.Expired() {
						return
					}
					args := append([]string(nil), base...)
					eff := ""
					expectError := false
					for _, o := range seq {
						args = append(args, o.argv...)
						eff = o.val
						if o.val == "ERROR" {
							expectError = true // a value the flag parser rejects is an error wherever it stands
						}
					}
					if len(seq) > 0 && eff != "ERROR" && !valid(eff) {
						expectError = true // the value that finally applies is invalid
					}
					if len(seq) == 0 {
						switch {
						case len(cv) == 0:
							eff = def
						case valid(cv[len(cv)-1]):
							eff = cv[len(cv)-1]
						default:
							expectError = true
						}
					}
					if eff == "ERROR" {
						expectError = true
					}
					var want cli.Result
					if !expectError {
						want = run.canonical(canon(eff)...)
					}
					run.setConfig(cfg)
					got := run.run(args...)
					sh.C.Nontrivial++
					sh.C.Outcome(fmt.Sprintf("%s/%s/%v", name, eff, expectError))
					if expectError {
						if !isCleanError(got) {
							mk("invalid-accepted", fmt.Sprintf("%s: an invalid setting must give a clean error; got exit %d, %d bytes of stdout, stderr %q", name, got.Exit, len(got.Stdout), got.Stderr), args, cfg)
						}
						return
					}
					if want.Exit != 0 {
						mk("HARNESS/canonical", fmt.Sprintf("canonical run %q failed: %s", canon(eff), want.Stderr), args, cfg)
						return
					}
					if d := observe(got, want); d != "" {
						mk("precedence", fmt.Sprintf("%s: effective value should be %q: %s", name, eff, d), args, cfg)
					}
					// the same setting arriving through the command scope of the caller's
					// environment (GIT_CONFIG_COUNT/KEY/VALUE) instead of a file
					if len(seq) == 0 && len(cv) == 1 && cv[0] != "\x00novalue" && keySpelling == cfgKey {
						run.setConfig(nil)
						run.env = []string{"GIT_CONFIG_COUNT=1", "GIT_CONFIG_KEY_0=" + cfgKey, "GIT_CONFIG_VALUE_0=" + cv[0]}
						got2 := run.run(args...)
						run.env = nil
						if d := observe(got2, want); d != "" {
							mk("precedence", fmt.Sprintf("%s given through GIT_CONFIG_COUNT in the environment: effective value should be %q: %s", name, eff, d), args, cfg)
						}
					}
					if idx%97 == 3 {
						sh.C.Sample(5, map[string]any{"family": name, "config": fmt.Sprint(cfg), "args": args, "effective": eff})
					}
				})
			}
		}
	}
	sameStdout := func(got, want cli.Result) string {
		if got.Exit != want.Exit || !bytes.Equal(got.Stdout, want.Stdout) {
			return fmt.Sprintf("exit %d vs %d; stdout differs (%d vs %d bytes); stderr %q", got.Exit, want.Exit, len(got.Stdout), len(want.Stdout), tailBytes(got.Stderr, 200))
		}
		return ""
	}
	isFloat := func(v string) bool { _, err := strconv.ParseFloat(v, 64); return err == nil }
	// threshold family
	family("threshold", "sizer.threshold",
		[][]string{nil, {"0"}, {"30"}, {"2.5"}, {"abc"}, {"0", "30"}},
		[]c14Opt{{[]string{"--threshold=0"}, "0"}, {[]string{"--threshold=1"}, "1"}, {[]string{"--threshold", "1.5"}, "1.5"}, {[]string{"--threshold=30"}, "30"},
			{[]string{"-v"}, "0"}, {[]string{"--verbose"}, "0"}, {[]string{"--no-verbose"}, "1"}, {[]string{"--critical"}, "30"}, {[]string{"--verbose=false"}, "1"}},
		[]string{"--no-progress"},
		func(v string) []string { return []string{"--no-progress", "--threshold=" + v} },
		isFloat, "1", sameStdout)
	// names family
	family("names", "sizer.names",
		[][]string{nil, {"none"}, {"hash"}, {"full"}, {"bogus"}},
		[]c14Opt{{[]string{"--names=none"}, "none"}, {[]string{"--names=hash"}, "hash"}, {[]string{"--names", "full"}, "full"}, {[]string{"--names=bogus"}, "ERROR"}},
		[]string{"--no-progress", "-v"},
		func(v string) []string { return []string{"--no-progress", "-v", "--names=" + v} },
		func(v string) bool { return v == "none" || v == "hash" || v == "full" }, "full", sameStdout)
	// the same family observed through JSON v1 and v2 (object names are part of both)
	for _, j := range [][]string{{"--json"}, {"--json", "--json-version=2"}} {
		j := j
		family("names"+strings.Join(j, ""), "sizer.names",
			[][]string{nil, {"none"}, {"hash"}, {"full"}},
			[]c14Opt{{[]string{"--names=none"}, "none"}, {[]string{"--names=hash"}, "hash"}, {[]string{"--names", "full"}, "full"}},
			append([]string{"--no-progress"}, j...),
			func(v string) []string { return append(append([]string{"--no-progress"}, j...), "--names="+v) },
			func(v string) bool { return v == "none" || v == "hash" || v == "full" }, "full", sameStdout)
	}
	// json version family (with --json and with -j)
	for _, j := range []string{"--json", "-j"} {
		family("jsonVersion"+j, "sizer.jsonVersion",
			[][]string{nil, {"1"}, {"2"}, {"3"}, {"x"}},
			[]c14Opt{{[]string{"--json-version=1"}, "1"}, {[]string{"--json-version", "2"}, "2"}, {[]string{"--json-version=3"}, "3"}},
			[]string{"--no-progress", j},
			func(v string) []string { return []string{"--no-progress", "--json", "--json-version=" + v} },
			func(v string) bool { return v == "1" || v == "2" }, "1", sameStdout)
	}
	// without --json the JSON version setting must not matter at all
	family("jsonVersion-unused", "sizer.jsonVersion",
		[][]string{nil, {"2"}, {"3"}},
		[]c14Opt{{[]string{"--json-version=2"}, "table"}},
		[]string{"--no-progress"},
		func(v string) []string { return []string{"--no-progress"} },
		func(v string) bool { return true }, "table",
		func(got, want cli.Result) string { return sameStdout(got, want) })
	// progress family: stdout identical; progress lines on stderr iff effective
	family("progress", "sizer.progress",
		// every spelling git accepts as a boolean (the key is documented as a git boolean)
		[][]string{nil, {"true"}, {"false"}, {"maybe"}, {"yes"}, {"on"}, {"no"}, {"off"}, {"1"}, {"0"}, {"2"}, {"TRUE"}, {"Off"}, {""}, {"\x00novalue"}, {"false", "yes"}},
		[]c14Opt{{[]string{"--progress"}, "true"}, {[]string{"--no-progress"}, "false"}, {[]string{"--progress=false"}, "false"}, {[]string{"--no-progress=false"}, "true"}},
		nil,
		func(v string) []string {
			if b, _ := gitBool(v); b {
				return []string{"--progress"}
			}
			return []string{"--no-progress"}
		},
		func(v string) bool { _, ok := gitBool(v); return ok }, "true",
		func(got, want cli.Result) string {
			if d := sameStdout(got, want); d != "" {
				return d
			}
			gp := bytes.Contains(got.Stderr, []byte("Processing blobs"))
			wp := bytes.Contains(want.Stderr, []byte("Processing blobs"))
			if gp != wp {
				return fmt.Sprintf("progress on stderr: %v, expected %v", gp, wp)
			}
			return ""
		})
	// equivalent spellings
	pairs := [][2][]string{
		{{"--verbose"}, {"--threshold=0"}}, {{"-v"}, {"--threshold=0"}}, {{"--critical"}, {"--threshold=30"}}, {{"--no-verbose"}, {"--threshold=1"}},
		{{"-j"}, {"--json"}}, {{"-j", "--json-version=2"}, {"--json", "--json-version=2"}},
		{{"--include-regexp", "refs/tags/.*"}, {"--include", "/refs/tags/.*/"}},
		// a regexp without metacharacters is still a whole-name match, not a prefix
		{{"--include-regexp", "refs/heads"}, {"--include", "/refs/heads/"}},
		{{"--exclude-regexp", "refs/tags"}, {"--exclude", "/refs/tags/"}},
		{{"--include-regexp", "refs/heads/main"}, {"--include", "/refs/heads/main/"}},
		{{"--exclude-regexp", "refs/heads/release/.*"}, {"--exclude", "/refs/heads/release/.*/"}},
		{{"--include-regexp", "refs/(heads|tags)/release/.*"}, {"--include", "/refs/(heads|tags)/release/.*/"}},
	}
	for _, g := range []string{"rel", "rel.old", "rel.new", "tags", "branches", "remotes", "QA", "rel.Old2"} {
		pairs = append(pairs, [2][]string{{"--refgroup", g}, {"--include", "@" + g}})
		pairs = append(pairs, [2][]string{{"--refgroup=" + g, "--exclude", "refs/heads/main"}, {"--include=@" + g, "--exclude", "refs/heads/main"}})
	}
	contexts := [][]string{nil, {"--names=hash"}, {"-v"}, {"--json"}, {"--show-refs", "-v"}}
	for _, p := range pairs {
		for _, ctx := range contexts {
			idx++
			if !sh.Mine(idx) || sh.Expired() {
				continue
			}
			run.setConfig(nil)
			a := append(append([]string{"--no-progress"}, ctx...), p[0]...)
			b := append(append([]string{"--no-progress"}, ctx...), p[1]...)
			ra, rb := run.run(a...), run.run(b...)
			sh.C.Nontrivial++
			if ra.Exit != rb.Exit || !bytes.Equal(ra.Stdout, rb.Stdout) {
				mk("spelling", fmt.Sprintf("%q and %q are documented as equivalent but give exit %d/%d and different stdout (%d vs %d bytes)", a, b, ra.Exit, rb.Exit, len(ra.Stdout), len(rb.Stdout)), a, nil)
			}
			if ra.Exit != 0 {
				mk("spelling-error", fmt.Sprintf("%q failed: %s", a, ra.Stderr), a, nil)
			}
			// --show-refs marks go to stderr; the deprecated spellings add a notice there: compare the marks only
			if len(ctx) > 0 && ctx[0] == "--show-refs" {
				ma, mb := refMarks(ra.Stderr), refMarks(rb.Stderr)
				if ma != mb {
					mk("spelling", fmt.Sprintf("%q and %q mark different references:\n%s---\n%s", a, b, ma, mb), a, nil)
				}
			}
		}
	}
}

func refMarks(stderr []byte) string {
	var out []string
	for _, l := range strings.Split(string(stderr), "\n") {
		if strings.HasPrefix(l, "+ ") || strings.HasPrefix(l, "  refs/") {
			out = append(out, l)
		}
	}
	return strings.Join(out, "\n") + "\n"
}

func tailBytes(b []byte, n int) string {
	if len(b) > n {
		return "..." + string(b[len(b)-n:])
	}
	return string(b)
}

func init() {
	Registry["C14"] = &Check{Level: "exploration", Worker: c14Worker, QuickBudget: 80 * time.Second, ThoroughBudget: 12 * time.Minute,
		Rule:        "real binary + real git on a materialised repository whose metrics sit in every threshold band; per option family the full product (gitconfig value: absent/valid/invalid/multi-valued, two key spellings) x (every option sequence of length <=2 quick / <=3 thorough over the family's option alphabet; the threshold family always up to length 3 for the absent and 0 configuration); expected = byte-identical stdout and exit status of the canonical run with the effective value spelled out (effective = last option of the family, else config, else default; invalid config with no option = clean error); progress observed on stderr; every single-valued setting also given through GIT_CONFIG_COUNT in the caller's environment instead of a file; 28 documented equivalent-spelling pairs x 5 contexts must give identical stdout, exit status and --show-refs marks. non-trivial = every case (all involve a config/option combination)",
		Assumptions: []string{"git 2.39.5 interprets the configuration file", "the canonical run (all settings spelled out, no sizer.* configuration) defines what a value means; C11/C08 own the content of a report"}}
}
