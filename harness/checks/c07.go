package checks

import (
	"encoding/json"
	"fmt"
	"os"
	"path/filepath"
	"sort"
	"strings"
	"time"

	"github.com/github/git-sizer/sizes"

	"verif/cli"
	"verif/explore"
	"verif/gen"
	"verif/inproc"
	"verif/modelgit"
	"verif/mrepo"
	"verif/realgit"
	"verif/refmodel"
)

type c07Group struct {
	symbol string
	rules  int // index into c07RuleSets
	name   string
}

var c07Symbols = []string{"g", "g.s", "g.s.t", "h", "tags.rel", "x.y", "other", "ignored", "g.other", "x.z", "tags", "branches"}

// rule sets over the C06 universe (overlapping ranges)
var c07RuleSets = [][]refmodel.ConfigEntry{
	nil, // none: only a display name is configured (rule-less group)
	{{Key: "include", Value: "refs/heads"}},
	{{Key: "include", Value: "refs/heads"}, {Key: "exclude", Value: "refs/heads/foo"}},
	{{Key: "includeregexp", Value: ".*/foo.*"}},
	{{Key: "include", Value: "refs/tags"}, {Key: "include", Value: "refs/stash"}},
	{{Key: "exclude", Value: "refs/tags/bar"}}, // exclude only: everything else (of a built-in group: its own members else)
	// top-level alternation: refs/heads/foobar starts with the first alternative,
	// refs/x/refs/tags/bar ends with the last one; neither is matched
	{{Key: "includeregexp", Value: "refs/heads/foo|refs/tags/bar"}},
}

func c07Config(groups []c07Group, childFirst bool) []refmodel.ConfigEntry {
	var out []refmodel.ConfigEntry
	gs := append([]c07Group(nil), groups...)
	if childFirst {
		for a, b := 0, len(gs)-1; a < b; a, b = a+1, b-1 {
			gs[a], gs[b] = gs[b], gs[a]
		}
	}
	for _, g := range gs {
		if g.name != "" {
			out = append(out, refmodel.ConfigEntry{Key: "refgroup." + g.symbol + ".name", Value: g.name})
		}
		for _, e := range c07RuleSets[g.rules] {
			out = append(out, refmodel.ConfigEntry{Key: "refgroup." + g.symbol + "." + e.Key, Value: e.Value})
		}
	}
	return out
}

// c07Repo: every reference of the universe points at one commit.
func c07Repo() *mrepo.Repo {
	r := mrepo.New()
	lv := gen.AddLeaves(r)
	t := r.AddTree([]mrepo.Entry{{Mode: 0o100644, Name: "a", Child: lv.BlobA}})
	c := r.AddCommit(mrepo.CommitSpec{Tree: t, Time: gen.T0, Message: "c\n"})
	for _, ref := range c06Universe {
		r.SetRef(ref, c)
	}
	return r
}

var c07Selections = []struct {
	argv  []string
	rules []refmodel.Rule
	root  bool
}{
	{nil, nil, false},
	{[]string{"--include", "refs/heads"}, []refmodel.Rule{{Include: true, Kind: 'p', Pattern: "refs/heads"}}, false},
	{[]string{"--exclude", "refs/heads/foo"}, []refmodel.Rule{{Include: false, Kind: 'p', Pattern: "refs/heads/foo"}}, false},
	{nil, nil, true},
}

func c07One(sh *explore.Shard, repo *mrepo.Repo, cfg []refmodel.ConfigEntry, desc string, render bool) {
	install()
	forest, ferr := refmodel.NewForest(cfg)
	if ferr != nil {
		panic(ferr)
	}
	undefined := forest.Undefined()
	for si, sel := range c07Selections {
		sh.C.Evals++
		mk := func(class, msg string) {
			sh.C.Violate(explore.Violation{Property: "C07", Class: class, Msg: msg + " [" + desc + fmt.Sprintf(" selection=%d]", si),
				Case: caseJSON(sh.Index(), map[string]any{"desc": desc, "config": fmt.Sprint(cfg), "selection": sel.argv})})
		}
		rg, err := func() (rg sizes.RefGrouper, err error) {
			defer func() {
				if r := recover(); r != nil {
					err = fmt.Errorf("PANIC: %v", r)
				}
			}()
			return realGrouper(cfg, sel.argv, sel.root)
		}()
		if undefined != "" {
			// an invalid definition must give a clean error, not a tally
			if err == nil {
				mk("undefined-accepted", fmt.Sprintf("group %q has neither rules nor subgroups but no error was reported", undefined))
			} else if strings.HasPrefix(err.Error(), "PANIC") {
				mk("panic", err.Error())
			}
			sh.C.Outcome("undefined-group-error")
			continue
		}
		if err != nil {
			mk("error", "building the refgroups failed: "+err.Error())
			continue
		}
		var explicit [][2]string
		if sel.root {
			explicit = [][2]string{{"root", string(repo.Refs[0].ID)}}
		}
		res := inproc.Scan(modelgit.NewEnv(repo, &modelgit.Plan{}), rg, explicit, sizes.NameStyleNone, nil)
		if res.Panic != nil {
			mk("panic", fmt.Sprintf("scan panicked: %v", res.Panic))
			continue
		}
		if res.Err != nil {
			mk("error", "scan failed: "+res.Err.Error())
			continue
		}
		// expected tallies; user groups and built-in buckets kept apart
		wantGroups := map[string]uint64{}
		wantBuckets := map[string]uint64{}
		for _, ref := range c06Universe {
			gs, bs := forest.Tally(sel.rules, sel.root, ref)
			for _, s := range gs {
				wantGroups[s]++
			}
			for _, s := range bs {
				wantBuckets[s]++
			}
		}
		got := map[string]uint64{}
		for k, v := range res.HS.ReferenceGroups {
			got[string(k)] = uint64(*v)
		}
		rc, _ := res.HS.ReferenceCount.ToUint64()
		if rc != uint64(len(c06Universe)) {
			mk("tally", fmt.Sprintf("reference_count = %d, repository has %d references", rc, len(c06Universe)))
		}
		keys := map[string]bool{}
		for k := range got {
			keys[k] = true
		}
		for k := range wantGroups {
			keys[k] = true
		}
		for k := range wantBuckets {
			keys[k] = true
		}
		var ks []string
		for k := range keys {
			ks = append(ks, k)
		}
		sort.Strings(ks)
		var sig strings.Builder
		for _, k := range ks {
			wg, wb := wantGroups[k], wantBuckets[k]
			fmt.Fprintf(&sig, "%s=%d,", k, got[k])
			_, userDefined := forest.BySymbol[k]
			if userDefined && (k == "other" || k == "ignored" || strings.HasSuffix(k, ".other")) && wb > 0 {
				// one symbol, two tallies: the report cannot show both. Defect
				// model: the two are added up under the shared symbol.
				if got[k] == wg+wb {
					mk("C07-bucket-collision", fmt.Sprintf("user group %q and the built-in bucket %q share one tally: reported %d = %d members + %d bucket", k, k, got[k], wg, wb))
				} else {
					mk("tally", fmt.Sprintf("%s: reported %d; group members %d, bucket %d", k, got[k], wg, wb))
				}
				continue
			}
			if got[k] != wg+wb {
				mk("tally", fmt.Sprintf("group %q: reported %d, expected %d", k, got[k], wg+wb))
			}
		}
		sh.C.Outcome(sig.String())
		if !render {
			continue
		}
		// the three renderings must be produced
		func() {
			defer func() {
				if r := recover(); r != nil {
					mk("render-panic", fmt.Sprintf("rendering panicked: %v", r))
				}
			}()
			tab := res.HS.TableString(rg.Groups(), 0, sizes.NameStyleNone)
			j2, err := res.HS.JSON(rg.Groups(), 0, sizes.NameStyleNone)
			if err != nil {
				mk("render", "JSON v2: "+err.Error())
				return
			}
			var items map[string]struct {
				Value uint64 `json:"value"`
			}
			if err := json.Unmarshal(j2, &items); err != nil {
				mk("render", "JSON v2 invalid: "+err.Error())
				return
			}
			for k, v := range got {
				if k == "" {
					continue
				}
				it, ok := items["refgroup."+k]
				if !ok {
					mk("render", fmt.Sprintf("JSON v2 lacks refgroup.%s although %d references are tallied there", k, v))
				} else if it.Value != v {
					mk("render", fmt.Sprintf("JSON v2 refgroup.%s = %d, JSON v1 says %d", k, it.Value, v))
				}
			}
			for k := range items {
				if strings.HasPrefix(k, "refgroup.") {
					if _, ok := got[strings.TrimPrefix(k, "refgroup.")]; !ok {
						mk("render", fmt.Sprintf("JSON v2 has %s which JSON v1 does not tally", k))
					}
				}
			}
			// table: one row per tallied group, named by its display name
			for _, g := range rg.Groups() {
				if g.Symbol == "" {
					continue
				}
				if v, ok := got[string(g.Symbol)]; ok {
					found := false
					for _, line := range strings.Split(tab, "\n") {
						if strings.Contains(line, "* "+g.Name+" ") && strings.Contains(line, fmt.Sprintf(" %d ", v)) {
							found = true
						}
					}
					if !found {
						mk("render", fmt.Sprintf("table has no row %q with value %d", g.Name, v))
					}
				}
			}
		}()
	}
}

func c07Worker(sh *explore.Shard) {
	repo := c07Repo()
	maxGroups := 2
	if sh.Tier == "thorough" {
		maxGroups = 3
	}
	var idx int64
	cur := make([]c07Group, 0, maxGroups)
	var rec func(start int)
	rec = func(start int) {
		if len(cur) > 0 {
			for _, childFirst := range []bool{false, true} {
				idx++
				if sh.Mine(idx) && !sh.Expired() {
					cfg := c07Config(cur, childFirst)
					c07One(sh, repo, cfg, fmt.Sprintf("groups=%v childFirst=%v", cur, childFirst), idx%7 == 0)
					if len(cur) > 1 {
						sh.C.Nontrivial++
					}
					if idx%4001 == 1 {
						sh.C.Sample(4, map[string]any{"config": fmt.Sprint(cfg)})
					}
				}
			}
		}
		if len(cur) == maxGroups {
			return
		}
		for si := start; si < len(c07Symbols); si++ {
			for rs := range c07RuleSets {
				for _, nm := range []string{"", "My Group"} {
					if rs == 0 && nm == "" {
						continue // no entry at all: the group would not exist
					}
					if nm != "" && rs != 0 && rs != 1 {
						continue // display names on two rule shapes only
					}
					cur = append(cur, c07Group{c07Symbols[si], rs, nm})
					rec(si + 1)
					cur = cur[:len(cur)-1]
				}
			}
		}
	}
	rec(0)
	// nesting depth sweep 1..20 (the renderer indexes fixed-size buffers by depth)
	for depth := 1; depth <= 20; depth++ {
		for _, implicit := range []bool{true, false} {
			idx++
			if !sh.Mine(idx) {
				continue
			}
			var parts []string
			for i := 0; i < depth; i++ {
				parts = append(parts, string(rune('a'+i)))
			}
			var cfg []refmodel.ConfigEntry
			if implicit {
				cfg = append(cfg, refmodel.ConfigEntry{Key: "refgroup." + strings.Join(parts, ".") + ".include", Value: "refs/heads"})
			} else {
				for i := 1; i <= depth; i++ {
					cfg = append(cfg, refmodel.ConfigEntry{Key: "refgroup." + strings.Join(parts[:i], ".") + ".include", Value: "refs/heads"})
				}
			}
			c07One(sh, repo, cfg, fmt.Sprintf("nesting depth=%d implicit_parents=%v", depth, implicit), true)
			sh.C.Nontrivial++
		}
	}
	c07EndToEnd(sh, &idx)
}

// end-to-end hierarchies: written to a real gitconfig as the user spells them
// (subsections are case-sensitive, section and variable names are not), read by
// the real git and the real binary
var c07E2E = [][]mrepo.ConfigEntry{
	{{Key: "refgroup.Release.include", Value: "refs/tags"}, {Key: "refgroup.release.include", Value: "refs/heads"}},
	{{Key: "refgroup.Release.include", Value: "refs/tags"}, {Key: "refgroup.Release.name", Value: "Upper"}, {Key: "refgroup.release.include", Value: "refs/heads/foo"}, {Key: "refgroup.release.sub.include", Value: "refs/heads/foo/bar"}},
	{{Key: "refgroup.g.include", Value: "refs/heads"}, {Key: "refgroup.g.s.includeRegexp", Value: ".*/foo.*"}, {Key: "refgroup.g.S.include", Value: "refs/heads/foo"}},
	{{Key: "refgroup.tags.exclude", Value: "refs/tags/bar"}},
	{{Key: "refgroup.branches.include", Value: "refs/xtags"}, {Key: "refgroup.branches.name", Value: "Branches+"}},
	{{Key: "RefGroup.g.Include", Value: "refs/heads"}, {Key: "REFGROUP.g.EXCLUDE", Value: "refs/heads/foo"}, {Key: "refgroup.g.Name", Value: "Mixed Case Keys"}},
	{{Key: "refgroup.my group.include", Value: "refs/heads"}, {Key: "refgroup.my group.name", Value: "with a blank"}},
	{{Key: "refgroup.a.b.c.include", Value: "refs/remotes"}, {Key: "refgroup.a.B.include", Value: "refs/tags"}},
}

func c07EndToEnd(sh *explore.Shard, idx *int64) {
	// the universe minus the names that cannot coexist in a real repository
	// (refs/heads/foo and refs/heads/foo/bar: directory/file conflict)
	var universe []string
	for _, a := range c06Universe {
		ok := true
		for _, b := range c06Universe {
			if strings.HasPrefix(a, b+"/") {
				ok = false
			}
		}
		if ok {
			universe = append(universe, a)
		}
	}
	repo := mrepo.New()
	{
		lv := gen.AddLeaves(repo)
		t := repo.AddTree([]mrepo.Entry{{Mode: 0o100644, Name: "a", Child: lv.BlobA}})
		c := repo.AddCommit(mrepo.CommitSpec{Tree: t, Time: gen.T0, Message: "c\n"})
		for _, ref := range universe {
			repo.SetRef(ref, c)
		}
	}
	for ci, cfg := range c07E2E {
		*idx++
		if !sh.Mine(*idx) || sh.Expired() {
			continue
		}
		func() {
			dir := scratch("c07e")
			defer os.RemoveAll(dir)
			gd := filepath.Join(dir, "repo.git")
			if err := realgit.Materialise(repo, gd); err != nil {
				sh.C.Violate(explore.Violation{Property: "C07", Class: "HARNESS/materialise", Msg: err.Error(), Case: caseJSON(sh.Index(), nil)})
				return
			}
			base := "[core]\n\trepositoryformatversion = 0\n\tbare = true\n"
			if err := os.WriteFile(filepath.Join(gd, "config"), []byte(base+realgit.ConfigText(cfg)), 0o644); err != nil {
				panic(err)
			}
			// the model's view: section and variable names lower-cased, subsection as written
			var mcfg []refmodel.ConfigEntry
			for _, e := range cfg {
				i, j := strings.IndexByte(e.Key, '.'), strings.LastIndexByte(e.Key, '.')
				mcfg = append(mcfg, refmodel.ConfigEntry{Key: strings.ToLower(e.Key[:i]) + e.Key[i:j] + strings.ToLower(e.Key[j:]), Value: e.Value})
			}
			forest, err := refmodel.NewForest(mcfg)
			if err != nil {
				panic(err)
			}
			for si, sel := range c07Selections {
				args := append([]string{"--json", "--json-version=1", "--no-progress"}, sel.argv...)
				if sel.root {
					args = append(args, string(repo.Refs[0].ID))
				}
				res := cli.Run(gd, "", nil, 60*time.Second, args...)
				sh.C.Evals++
				sh.C.Validated++
				mk := func(class, msg string) {
					sh.C.Violate(explore.Violation{Property: "C07", Class: class, Msg: fmt.Sprintf("%s [real binary, real git, gitconfig #%d %v, args %q]", msg, ci, cfg, args),
						Case: caseJSON(sh.Index(), map[string]any{"config": fmt.Sprint(cfg), "selection": si})})
				}
				if res.Exit != 0 || res.TimedOut {
					mk("error", fmt.Sprintf("exit %d, stderr %q", res.Exit, res.Stderr))
					continue
				}
				var out struct {
					Count  uint64            `json:"reference_count"`
					Groups map[string]uint64 `json:"reference_groups"`
				}
				if err := json.Unmarshal(res.Stdout, &out); err != nil {
					mk("render", "JSON v1 invalid: "+err.Error())
					continue
				}
				want := map[string]uint64{}
				for _, ref := range universe {
					gs, bs := forest.Tally(sel.rules, sel.root, ref)
					for _, s := range gs {
						want[s]++
					}
					for _, s := range bs {
						want[s]++
					}
				}
				if out.Count != uint64(len(universe)) {
					mk("tally", fmt.Sprintf("reference_count = %d, repository has %d references", out.Count, len(universe)))
				}
				keys := map[string]bool{}
				for k := range want {
					keys[k] = true
				}
				for k := range out.Groups {
					keys[k] = true
				}
				var ks []string
				for k := range keys {
					ks = append(ks, k)
				}
				sort.Strings(ks)
				var sig strings.Builder
				for _, k := range ks {
					fmt.Fprintf(&sig, "%s=%d,", k, out.Groups[k])
					if out.Groups[k] != want[k] {
						mk("tally", fmt.Sprintf("group %q: reported %d, expected %d", k, out.Groups[k], want[k]))
					}
				}
				sh.C.Outcome("e2e:" + sig.String())
				sh.C.Nontrivial++
				// --show-refs lists the references on stderr; the report is the same
				res2 := cli.Run(gd, "", nil, 60*time.Second, append([]string{"--show-refs"}, args...)...)
				sh.C.Evals++
				if res2.Exit != 0 || string(res2.Stdout) != string(res.Stdout) {
					mk("tally", fmt.Sprintf("with --show-refs the report differs (exit %d):\n%s\n--- without:\n%s", res2.Exit, clipText(string(res2.Stdout)), clipText(string(res.Stdout))))
				}
			}
		}()
	}
}

func init() {
	Registry["C07"] = &Check{Level: "exploration", Worker: c07Worker, QuickBudget: 60 * time.Second, ThoroughBudget: 10 * time.Minute,
		Rule:        "all refgroup forests of <=2 (quick) / <=3 (thorough) user groups over 12 symbol shapes (nested, implicit parents, augmenting a built-in, rules on the built-in groups tags/branches themselves, named other/ignored/g.other) x 7 rule sets (incl. exclude-only and a regexp with top-level alternation) x display name, each in parent-first and child-first config order, x 4 selections, plus nesting depth 1..20 with implicit and explicit parents; real RefGroupBuilder + in-process scan of a 20-reference universe; JSON v1 tallies compared with the recursive definition of the statement, JSON v2 and the verbose table must be produced and agree; plus 8 hierarchies written to a real gitconfig as the user spells them (symbols differing only in case, mixed-case section/variable names, blanks, rules on built-in groups) x 4 selections through the real binary and real git, each also with --show-refs (same report). non-trivial = forests with >= 2 user groups and every nesting-depth case",
		Assumptions: []string{"refgroup configuration is served by a fake Configger implementing GetConfig's documented contract (C15 owns the real parser)"}}
}
