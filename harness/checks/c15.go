package checks

import (
	"bytes"
	"fmt"
	"os"
	"os/exec"
	"path/filepath"
	"strings"
	"time"

	"github.com/github/git-sizer/git"
	"github.com/github/git-sizer/verifbridge"

	"verif/explore"
	"verif/mrepo"
	"verif/realgit"
	"verif/refmodel"
)

// entry shapes of the C15 alphabet (key as the user writes it, value)
var c15Shapes = []mrepo.ConfigEntry{
	{Key: "refgroup.g.include", Value: "refs/heads"},
	{Key: "refgroup.g.exclude", Value: "refs/heads/foo"},
	{Key: "refgroup.g.includeRegexp", Value: "refs/tags/.*"},
	{Key: "refgroup.g.name", Value: "My G"},
	{Key: "refgroup.G.include", Value: "refs/tags"},
	{Key: "refgroup.a.b.include", Value: "refs/remotes"},
	{Key: "foo.bar", Value: "\x00novalue"},
	{Key: "refgroup.g.include", Value: "\x00novalue"},
	{Key: "foo.empty", Value: ""},
	{Key: "foo.multi", Value: "l1\nrefgroup.g.include\nl3"},
	{Key: "foo.eq", Value: "a=b=c"},
	{Key: "refgroupx.g.include", Value: "refs/x"},
	{Key: "xrefgroup.g.include", Value: "refs/x"},
	{Key: "refgroup.include", Value: "refs/y"},
	{Key: "refgroup.g..include", Value: "refs/notes"},
	{Key: "foo.ctl", Value: "tab\there \"quoted\" back\\slash"},
	{Key: "refgroup.g.name", Value: ""},
	{Key: "refgroup.h.include", Value: "refs/stash"},
	{Key: "refgroup.a.b.c.include", Value: "refs/remotes/o"}, // nested three deep: a -> a.b -> a.b.c
	{Key: "refgroup.g.include", Value: "refs/heads\n"},       // a value ending in LF (under -z the LF is part of the value)
	{Key: "refgroup.tags.name", Value: ""},                   // empty name for a built-in group
	{Key: "foo.big", Value: strings.Repeat("v", 70000)},      // a record longer than 64 KiB
}

type nulEntry struct {
	key      string
	value    string
	hasValue bool
}

// parseNulFirst parses `git config --list -z` the way git documents it: records
// are NUL-terminated; within a record the key ends at the first LF; a record
// without LF is a key without a value.
func parseNulFirst(out []byte) []nulEntry {
	var es []nulEntry
	for len(out) > 0 {
		i := bytes.IndexByte(out, 0)
		if i < 0 {
			break
		}
		rec := out[:i]
		out = out[i+1:]
		if j := bytes.IndexByte(rec, '\n'); j >= 0 {
			es = append(es, nulEntry{string(rec[:j]), string(rec[j+1:]), true})
		} else {
			es = append(es, nulEntry{string(rec), "", false})
		}
	}
	return es
}

type scopeAssignment []int // per entry: 0 local, 1 global, 2 system, 3 command

func c15Case(sh *explore.Shard, dir string, seq []int, scopes scopeAssignment) {
	mk := func(class, msg string) {
		var es []string
		for k, i := range seq {
			v := c15Shapes[i].Value
			if v == "\x00novalue" {
				v = "<no value>"
			}
			es = append(es, fmt.Sprintf("%s=%q@%d", c15Shapes[i].Key, v, scopes[k]))
		}
		sh.C.Violate(explore.Violation{Property: "C15", Class: class, Msg: msg + " [config: " + strings.Join(es, "; ") + "]",
			Case: caseJSON(sh.Index(), map[string]any{"entries": es})})
	}
	gd := filepath.Join(dir, "repo.git")
	home := filepath.Join(dir, "home")
	// write the four scopes
	var perScope [4][]mrepo.ConfigEntry
	for k, i := range seq {
		perScope[scopes[k]] = append(perScope[scopes[k]], c15Shapes[i])
	}
	base := "[core]\n\trepositoryformatversion = 0\n\tbare = true\n"
	os.WriteFile(filepath.Join(gd, "config"), []byte(base+realgit.ConfigText(perScope[0])), 0o644)
	os.WriteFile(filepath.Join(home, "global"), []byte(realgit.ConfigText(perScope[1])), 0o644)
	os.WriteFile(filepath.Join(home, "system"), []byte(realgit.ConfigText(perScope[2])), 0o644)
	// environment of this process = environment git-sizer's subprocesses inherit
	os.Setenv("GIT_CONFIG_GLOBAL", filepath.Join(home, "global"))
	os.Setenv("GIT_CONFIG_SYSTEM", filepath.Join(home, "system"))
	os.Unsetenv("GIT_CONFIG_NOSYSTEM")
	// command scope
	for k := 0; k < 8; k++ {
		os.Unsetenv(fmt.Sprintf("GIT_CONFIG_KEY_%d", k))
		os.Unsetenv(fmt.Sprintf("GIT_CONFIG_VALUE_%d", k))
	}
	n := 0
	for _, e := range perScope[3] {
		if e.Value == "\x00novalue" {
			// a valueless key cannot be expressed through GIT_CONFIG_COUNT; use the empty value
			os.Setenv(fmt.Sprintf("GIT_CONFIG_KEY_%d", n), e.Key)
			os.Setenv(fmt.Sprintf("GIT_CONFIG_VALUE_%d", n), "")
		} else {
			os.Setenv(fmt.Sprintf("GIT_CONFIG_KEY_%d", n), e.Key)
			os.Setenv(fmt.Sprintf("GIT_CONFIG_VALUE_%d", n), e.Value)
		}
		n++
	}
	os.Setenv("GIT_CONFIG_COUNT", fmt.Sprint(n))

	// the reference: git's own listing with the flags and environment git-sizer uses
	cmd := exec.Command(realgit.GitBin, "--no-replace-objects", "-c", "advice.graftFileDeprecated=false", "config", "--list", "-z")
	cmd.Env = append(os.Environ(), "GIT_DIR="+gd, "GIT_GRAFT_FILE=/dev/null")
	out, err := cmd.Output()
	if err != nil {
		sh.C.Add("configs_git_rejects", 1)
		return // git itself rejects this configuration: not an input of the property
	}
	listing := parseNulFirst(out)
	sh.C.Evals++
	repo := git.VerifNewRepository(gd, realgit.GitBin)
	for _, prefix := range []string{"refgroup", "refgroup.g", "refgroup.G", "refgroup.a.b", "foo"} {
		var want []nulEntry
		valueless := map[string]bool{}
		for _, e := range listing {
			var rest string
			switch {
			case e.key == prefix:
				rest = ""
			case strings.HasPrefix(e.key, prefix+"."):
				rest = e.key[len(prefix)+1:]
			default:
				continue
			}
			if !e.hasValue {
				valueless[rest] = true
				continue
			}
			want = append(want, nulEntry{rest, e.value, true})
		}
		// (an empty value under a key that also occurs without a value is
		// indistinguishable from the latter's presentation: leave both out)
		w2 := want[:0]
		for _, e := range want {
			if !(valueless[e.key] && e.value == "") {
				w2 = append(w2, e)
			}
		}
		want = w2
		cfg, err := repo.GetConfig(prefix)
		if err != nil {
			mk("error", fmt.Sprintf("GetConfig(%q) failed: %v", prefix, err))
			continue
		}
		var got []nulEntry
		for _, e := range cfg.Entries {
			if valueless[e.Key] && e.Value == "" {
				continue // how a key without a value is presented is not constrained
			}
			got = append(got, nulEntry{e.Key, e.Value, true})
		}
		if fmt.Sprint(got) != fmt.Sprint(want) {
			class := "entries"
			mk(class, fmt.Sprintf("GetConfig(%q) = %q, git reports %q", prefix, got, want))
		}
		sh.C.Validated++
	}
	// one level up: the groups the real builder ends up with
	var model []refmodel.ConfigEntry
	for _, e := range listing {
		if e.hasValue {
			model = append(model, refmodel.ConfigEntry{Key: e.key, Value: e.value})
		}
	}
	forest, ferr := refmodel.NewForest(model)
	if ferr != nil {
		return
	}
	rgb, err := verifbridge.NewRefGroupBuilder(repo)
	undefined := forest.Undefined()
	if err != nil {
		if undefined == "" {
			mk("builder-error", "NewRefGroupBuilder failed: "+err.Error())
		}
		return
	}
	rg, err := rgb.Finish(true)
	if err != nil {
		if undefined == "" {
			mk("builder-error", "Finish failed: "+err.Error())
		}
		return
	}
	if undefined != "" {
		return // invalid definition reported elsewhere (C07)
	}
	var sig strings.Builder
	for _, ref := range c06Universe {
		_, symbols := rg.Categorize(ref)
		gs, bs := forest.Tally(nil, false, ref)
		want := map[string]bool{}
		for _, s := range gs {
			want[s] = true
		}
		for _, s := range bs {
			want[s] = true
		}
		got := map[string]bool{}
		for _, s := range symbols {
			got[string(s)] = true
		}
		if fmt.Sprint(keys(got)) != fmt.Sprint(keys(want)) {
			mk("groups", fmt.Sprintf("%s is categorised under %v, the configuration git reports implies %v", ref, keys(got), keys(want)))
			break
		}
		fmt.Fprintf(&sig, "%d", len(got))
	}
	// display names
	plain, _ := refmodel.NewForest(nil)
	for _, g := range rg.Groups() {
		mg, ok := forest.BySymbol[string(g.Symbol)]
		if !ok {
			continue
		}
		if mg.Name != "" && g.Name != mg.Name {
			mk("groups", fmt.Sprintf("group %q has display name %q, configuration says %q", g.Symbol, g.Name, mg.Name))
		}
		if mg.Name == "" {
			// the last name entry git reports is empty: whatever is displayed then, it
			// is not a name that this last entry has overridden
			overridden := map[string]bool{}
			if pg, ok := plain.BySymbol[string(g.Symbol)]; ok && pg.Name != "" {
				overridden[pg.Name] = true
			}
			explicit := false
			for _, e := range model {
				if e.Key == "refgroup."+string(g.Symbol)+".name" {
					explicit = true
					if e.Value != "" {
						overridden[e.Value] = true
					}
				}
			}
			if explicit && overridden[g.Name] {
				mk("groups", fmt.Sprintf("group %q has display name %q although the last name entry git reports for it is empty", g.Symbol, g.Name))
			}
		}
	}
	sh.C.Outcome(sig.String())
}

func c15Worker(sh *explore.Shard) {
	dir := scratch("c15")
	defer os.RemoveAll(dir)
	os.MkdirAll(filepath.Join(dir, "home"), 0o755)
	r := mrepo.New()
	if err := realgit.Materialise(r, filepath.Join(dir, "repo.git")); err != nil {
		panic(err)
	}
	os.Setenv("HOME", filepath.Join(dir, "home"))
	os.Setenv("XDG_CONFIG_HOME", filepath.Join(dir, "home"))
	maxLen := 2
	if sh.Tier == "thorough" {
		maxLen = 3
	}
	var idx int64
	seq := make([]int, 0, maxLen)
	var rec func()
	rec = func() {
		if len(seq) > 0 {
			// all entries local
			idx++
			if sh.Mine(idx) && !sh.Expired() {
				c15Case(sh, dir, seq, make(scopeAssignment, len(seq)))
				if len(seq) > 1 {
					sh.C.Nontrivial++
				}
				if idx%311 == 5 {
					var es []string
					for _, i := range seq {
						es = append(es, c15Shapes[i].Key+"="+strings.ReplaceAll(c15Shapes[i].Value, "\x00novalue", "<no value>"))
					}
					sh.C.Sample(4, map[string]any{"entries_in_order": es, "scopes": "all local"})
				}
			}
			// every scope assignment for sequences of length <= 2
			scoped := len(seq) <= 2
			for _, i := range seq {
				if i >= 9 && len(seq) == 2 && sh.Tier != "thorough" {
					scoped = false // scope assignments of pairs: over the first 9 shapes (quick), all shapes (thorough)
				}
			}
			if scoped {
				n := 1
				for range seq {
					n *= 4
				}
				for a := 1; a < n; a++ {
					idx++
					if !sh.Mine(idx) || sh.Expired() {
						continue
					}
					sc := make(scopeAssignment, len(seq))
					x := a
					for k := range seq {
						sc[k] = x % 4
						x /= 4
					}
					c15Case(sh, dir, seq, sc)
					sh.C.Nontrivial++
				}
			}
		}
		if len(seq) == maxLen {
			return
		}
		for i := range c15Shapes {
			seq = append(seq, i)
			rec()
			seq = seq[:len(seq)-1]
		}
	}
	rec()
}

func init() {
	Registry["C15"] = &Check{Level: "exploration", Worker: c15Worker, QuickBudget: 70 * time.Second, ThoroughBudget: 10 * time.Minute,
		Rule:        "all configuration texts of <=2 (quick) / <=3 (thorough) entries over 22 entry shapes (one value of 70000 bytes) (refgroup include/exclude/includeRegexp/name for groups g, G, a.b, a.b.c, 'g.' and h; keys without a value, foreign and refgroup; empty, multi-line, LF-terminated, '='-bearing and quoted values; empty display names overriding earlier ones; look-alike sections refgroupx/xrefgroup/refgroup.include), every assignment of the entries to the local/global/system/command scopes for single entries and for pairs over the first 9 shapes (thorough: all pairs); real git's own `config --list -z` (same flags and environment as git-sizer) parsed NUL-first is the reference for Repository.GetConfig(prefix) on 5 prefixes and, one level up, for the groups the real RefGroupBuilder builds (Categorize on the reference universe, display names). non-trivial = texts with >=2 entries or a non-local scope",
		Assumptions: []string{"git 2.39.5 is the reference parser of configuration files", "how a key that has no value is itself presented is not constrained; only that it does not disturb other entries"}}
}
