package checks

import (
	"bytes"
	"encoding/json"
	"fmt"
	"hash/fnv"
	"os"
	"path/filepath"
	"sort"
	"strings"
	"sync"
	"time"

	"github.com/github/git-sizer/sizes"

	"verif/cli"
	"verif/explore"
	"verif/gen"
	"verif/inproc"
	"verif/modelgit"
	"verif/mrepo"
	"verif/oracle"
	"verif/realgit"
)

var installOnce sync.Once

func install() { installOnce.Do(inproc.Install) }

var censusKeys = []string{"unique_commit_count", "unique_commit_size", "unique_tree_count", "unique_tree_size",
	"unique_tree_entries", "unique_blob_count", "unique_blob_size", "unique_tag_count"}
var biggestKeys = []string{"max_commit_size", "max_parent_count", "max_tree_entries", "max_blob_size"}
var depthKeys = []string{"max_history_depth", "max_tag_depth"}
var checkoutKeys = []string{"max_path_depth", "max_path_length", "max_expanded_tree_count", "max_expanded_blob_count",
	"max_expanded_blob_size", "max_expanded_link_count", "max_expanded_submodule_count"}

func allNumericKeys() []string {
	var k []string
	k = append(k, censusKeys...)
	k = append(k, biggestKeys...)
	k = append(k, depthKeys...)
	k = append(k, checkoutKeys...)
	return k
}

// numRun is the per-scenario state of a numeric exploration.
type numRun struct {
	sh     *explore.Shard
	prop   string
	owned  []string
	states map[uint64]struct{}
	// first result of the scenario (for order-invariance)
	first map[string]uint64
	// unordered: the rev-list invocation of the code under test carries no
	// ordering flag (learnt from the first execution's log)
	unordered bool
	probed    bool
	// number of in-process findings already re-run at CLI level
	cliConfirmed int
}

// space completes an order space with what was learnt about rev-list's flags.
func (n *numRun) space(sp gen.OrderSpace, sc *gen.Scenario) gen.OrderSpace {
	if !n.probed {
		install()
		env := modelgit.NewEnv(sc.Repo, &modelgit.Plan{})
		res := inproc.Scan(env, inproc.SimpleGrouper{Walk: sc.Walks}, sc.Explicit, sizes.NameStyleNone, nil)
		for _, inv := range res.Log {
			if inv.Kind == modelgit.KRevList {
				n.probed = true
				n.unordered = !modelgit.RevListOrdered(inv.Args)
			}
		}
	}
	sp.CommitsUnordered = n.unordered
	return sp
}

func newNumRun(sh *explore.Shard, prop string, owned []string) *numRun {
	return &numRun{sh: sh, prop: prop, owned: owned, states: map[uint64]struct{}{}}
}

// beginScenario resets the per-scenario state set.
func (n *numRun) beginScenario() {
	n.sh.C.States += int64(len(n.states))
	n.states = map[uint64]struct{}{}
	n.first = nil
}

// maybeConform runs the conformance pass (model git vs real git, CLI vs oracle)
// on every stride-th scenario.
func (n *numRun) maybeConform(sc *gen.Scenario, idx int64, stride int64) {
	if stride > 0 && idx%stride == 0 {
		conform(n.sh, n.prop, n.owned, sc)
	}
}

func (n *numRun) end() {
	n.sh.C.States += int64(len(n.states))
	n.states = map[uint64]struct{}{}
}

func caseJSON(idx int64, extra map[string]any) json.RawMessage {
	m := map[string]any{"index": idx}
	for k, v := range extra {
		m[k] = v
	}
	b, _ := json.Marshal(m)
	return b
}

func orderStr(order []mrepo.ID) string {
	s := make([]string, len(order))
	for i, id := range order {
		s[i] = id.Short()
	}
	return strings.Join(s, " ")
}

// one runs one execution: scan the scenario under the given listing order and
// compare the owned keys with the oracle. invariance additionally demands
// equality of every numeric key with the first execution of the scenario.
func (n *numRun) one(sc *gen.Scenario, order []mrepo.ID, style sizes.NameStyle, invariance bool, refOrder []int) *inproc.Result {
	install()
	sh := n.sh
	plan := &modelgit.Plan{ListOrder: order, RefOrder: refOrder}
	env := modelgit.NewEnv(sc.Repo, plan)
	res := inproc.Scan(env, inproc.SimpleGrouper{Walk: sc.Walks}, sc.Explicit, style, nil)
	sh.C.Evals++
	sh.C.Transitions += int64(len(order))
	// states: nodes of the execution tree = distinct delivery prefixes
	h := fnv.New64a()
	for _, id := range order {
		h.Write([]byte(id[:16]))
		n.states[h.Sum64()] = struct{}{}
	}
	mk := func(class, msg string) {
		// an in-process finding is re-run at CLI level (real binary, real go-pipe,
		// real exec, the model git executing the same plan) before it is
		// reported: what does not reproduce there is the shim's fault, not a verdict
		if n.cliConfirmed < 3 && refOrder == nil {
			n.cliConfirmed++
			if ok, why := confirmAtCLI(sc, order, n.owned); !ok {
				class = "HARNESS/inproc-only"
				msg = msg + " -- NOT reproduced by the real binary with the model git under the same plan: " + why
			} else {
				msg = msg + " (reproduced by the real binary with the model git under the same plan)"
			}
		}
		sh.C.Violate(explore.Violation{Property: n.prop, Class: class, Msg: msg,
			Case:   caseJSON(sh.Index(), map[string]any{"order": orderStr(order), "desc": sc.Desc}),
			Detail: sc.Repo.Describe() + "roots: " + fmt.Sprint(sc.Roots()) + "\norder: " + orderStr(order)})
	}
	if res.Panic != nil {
		sh.C.Outcome("panic")
		mk("panic", fmt.Sprintf("scan panicked: %v", res.Panic))
		return &res
	}
	if res.Err != nil {
		sh.C.Outcome("error")
		if u := res.Unmodelled(); u != "" {
			sh.C.Violate(explore.Violation{Property: n.prop, Class: "HARNESS/unmodelled-git-command", Msg: "the model git does not implement the read-only command " + u + " (extend harness/modelgit)", Case: caseJSON(sh.Index(), nil)})
			return &res
		}
		mk("error", fmt.Sprintf("scan failed: %v", res.Err))
		return &res
	}
	got := inproc.Numbers(&res.HS)
	want := oracle.Compute(sc.Repo, sc.Roots()).Numbers()
	var diffs []string
	for _, k := range n.owned {
		if got[k] != want[k] {
			diffs = append(diffs, fmt.Sprintf("%s: reported %d, true %d", k, got[k], want[k]))
		}
	}
	if len(diffs) > 0 {
		mk("mismatch", strings.Join(diffs, "; "))
	}
	if invariance {
		if n.first == nil {
			n.first = got
		} else {
			var d []string
			for _, k := range allNumericKeys() {
				if got[k] != n.first[k] {
					d = append(d, fmt.Sprintf("%s: %d vs %d under the first order", k, got[k], n.first[k]))
				}
			}
			if len(d) > 0 {
				mk("order-dependent", strings.Join(d, "; "))
			}
		}
	}
	// outcome signature: the owned numbers
	var sig strings.Builder
	for _, k := range n.owned {
		fmt.Fprintf(&sig, "%d,", got[k])
	}
	sh.C.Outcome(sig.String())
	return &res
}

func inprocNumbers(hs *sizes.HistorySize) map[string]uint64 { return inproc.Numbers(hs) }

func defaultListing(sc *gen.Scenario) *modelgit.Listing {
	l, err := modelgit.DefaultListing(sc.Repo, sc.Roots())
	if err != nil {
		panic("harness: default listing failed: " + err.Error())
	}
	return l
}

// ---------------------------------------------------------------- C03

func c03Worker(sh *explore.Shard) {
	n := newNumRun(sh, "C03", depthKeys)
	maxN, maxM := 4, 4
	if sh.Tier == "thorough" {
		maxN, maxM = 5, 5
	}
	var idx int64
	// history: all DAGs x all non-empty root subsets x all linear extensions
	for nn := 1; nn <= maxN && !sh.Expired(); nn++ {
		gen.CommitDAGs(nn, func(r *mrepo.Repo, commits []mrepo.ID, masks []uint) bool {
			cont := true
			gen.Subsets(nn, func(mask uint) bool {
				idx++
				if !sh.Mine(idx) {
					return true
				}
				if sh.Expired() {
					cont = false
					return false
				}
				rr := *r
				rr.Refs = nil
				for c := 0; c < nn; c++ {
					if mask&(1<<uint(c)) != 0 {
						rr.SetRef(fmt.Sprintf("refs/heads/b%d", c), commits[c])
					}
				}
				sc := &gen.Scenario{Repo: &rr, Desc: fmt.Sprintf("dag n=%d masks=%v roots=%b", nn, masks, mask)}
				l := defaultListing(sc)
				n.beginScenario()
				n.maybeConform(sc, idx, 23)
				cnt, _ := gen.Orders(sc.Repo, l, n.space(gen.OrderSpace{Commits: true}, sc), func(order []mrepo.ID) bool {
					n.one(sc, order, sizes.NameStyleNone, true, nil)
					return true
				})
				if cnt > 1 {
					sh.C.Nontrivial++
				}
				sh.C.Sample(2, map[string]any{"kind": "history", "desc": sc.Desc, "orders": cnt, "default_order": orderStr(l.IDs)})
				return true
			})
			return cont
		})
	}
	// real git chooses the order: every DAG x every assignment of distinct
	// timestamps to the commits (children older than their parents included),
	// all commits that have no child as roots; real binary + real git
	realN := 3
	if sh.Tier == "thorough" {
		realN = 4
	}
	for nn := 2; nn <= realN && !sh.Expired(); nn++ {
		gen.CommitDAGs(nn, func(r0 *mrepo.Repo, _ []mrepo.ID, masks []uint) bool {
			cont := true
			explore.Perm(nn, func(perm []int) bool {
				idx++
				if !sh.Mine(idx) {
					return true
				}
				if sh.Expired() {
					cont = false
					return false
				}
				r := mrepo.New()
				lv := gen.AddLeaves(r)
				tree := r.AddTree([]mrepo.Entry{{Mode: 0o100644, Name: "a", Child: lv.BlobA}})
				ids := make([]mrepo.ID, nn)
				hasChild := map[int]bool{}
				for c := 0; c < nn; c++ {
					var ps []mrepo.ID
					for p := c - 1; p >= 0; p-- {
						if masks[c]&(1<<uint(p)) != 0 {
							ps = append(ps, ids[p])
							hasChild[p] = true
						}
					}
					ids[c] = r.AddCommit(mrepo.CommitSpec{Tree: tree, Parents: ps, Time: gen.T0 + int64(perm[c])*1000, Message: fmt.Sprintf("c%d\n", c)})
				}
				for c := 0; c < nn; c++ {
					if !hasChild[c] {
						r.SetRef(fmt.Sprintf("refs/heads/tip%d", c), ids[c])
					}
				}
				sc := &gen.Scenario{Repo: r, Desc: fmt.Sprintf("real-git order: dag n=%d masks=%v timestamps=%v", nn, masks, perm)}
				conform(sh, "C03", depthKeys, sc)
				sh.C.Nontrivial++
				return true
			})
			return cont
		})
	}
	// tags: all forests x all non-empty root subsets x all listing orders
	for mm := 1; mm <= maxM && !sh.Expired(); mm++ {
		gen.TagForests(mm, func(r *mrepo.Repo, tags []mrepo.ID, targets []int) bool {
			cont := true
			gen.Subsets(mm, func(mask uint) bool {
				idx++
				if !sh.Mine(idx) {
					return true
				}
				if sh.Expired() {
					cont = false
					return false
				}
				rr := *r
				rr.Refs = nil
				for c := 0; c < mm; c++ {
					if mask&(1<<uint(c)) != 0 {
						rr.SetRef(fmt.Sprintf("refs/tags/t%d", c), tags[c])
					}
				}
				sc := &gen.Scenario{Repo: &rr, Desc: fmt.Sprintf("tags m=%d targets=%v roots=%b", mm, targets, mask)}
				l := defaultListing(sc)
				n.beginScenario()
				n.maybeConform(sc, idx, 23)
				cnt, _ := gen.Orders(sc.Repo, l, gen.OrderSpace{Tags: true}, func(order []mrepo.ID) bool {
					n.one(sc, order, sizes.NameStyleNone, true, nil)
					return true
				})
				if cnt > 1 {
					sh.C.Nontrivial++
				}
				sh.C.Sample(4, map[string]any{"kind": "tags", "desc": sc.Desc, "orders": cnt, "default_order": orderStr(l.IDs)})
				return true
			})
			return cont
		})
	}
	n.end()
}

// ---------------------------------------------------------------- C04

func treeAlphabet(tier string) (int, gen.TreeAlphabet) {
	if tier == "thorough" {
		return 3, gen.TreeAlphabet{Names: []string{"a", "bb", "c.d"}, Leaves: "bls", MaxEntries: 3}
	}
	return 3, gen.TreeAlphabet{Names: []string{"a", "bbb"}, Leaves: "blsg", MaxEntries: 2}
}

func treeScenario(r *mrepo.Repo, trees []mrepo.ID, viaTag bool) *gen.Scenario {
	top := trees[len(trees)-1]
	rr := *r
	rr.Refs = nil
	c := rr.AddCommit(mrepo.CommitSpec{Tree: top, Time: gen.T0, Message: "top\n"})
	rr.SetRef("refs/heads/main", c)
	reach := oracle.Compute(&rr, []mrepo.ID{c}).Reach
	for j, t := range trees[:len(trees)-1] {
		if !reach[t] {
			if viaTag && j == 0 {
				tg := rr.AddTag(mrepo.TagSpec{Target: t, Name: "tt", Time: gen.T0, Message: "tree tag\n"})
				rr.SetRef("refs/tags/tt", tg)
			} else {
				rr.SetRef(fmt.Sprintf("refs/tags/tree%d", j), t)
			}
		}
	}
	return &gen.Scenario{Repo: &rr}
}

func c04Worker(sh *explore.Shard) {
	n := newNumRun(sh, "C04", checkoutKeys)
	k, al := treeAlphabet(sh.Tier)
	var idx int64
	for kk := 1; kk <= k && !sh.Expired(); kk++ {
		gen.TreeDAGs(kk, al, func(r *mrepo.Repo, lv gen.Leaves, trees []mrepo.ID) bool {
			idx++
			if !sh.Mine(idx) {
				return true
			}
			if sh.Expired() {
				return false
			}
			sc := treeScenario(r, trees, idx%2 == 0)
			sc.Desc = fmt.Sprintf("treedag k=%d #%d", kk, idx)
			l := defaultListing(sc)
			n.beginScenario()
			cstride := int64(67)
			if sh.Tier == "thorough" {
				cstride = 1999
			}
			n.maybeConform(sc, idx, cstride)
			cnt, _ := gen.Orders(sc.Repo, l, gen.OrderSpace{Trees: true}, func(order []mrepo.ID) bool {
				n.one(sc, order, sizes.NameStyleNone, true, nil)
				return true
			})
			if cnt > 1 {
				sh.C.Nontrivial++
			}
			if idx%997 == 1 {
				sh.C.Sample(3, map[string]any{"desc": sc.Desc, "repo": sc.Repo.Describe(), "orders": cnt})
			}
			return true
		})
	}
	// wide trees: 255, 256, 257 and 600 subdirectory entries (same subtree and
	// distinct subtrees) below a root, in both delivery orders
	for _, width := range []int{255, 256, 257, 600} {
		for _, distinct := range []bool{false, true} {
			idx++
			if !sh.Mine(idx) || sh.Expired() {
				continue
			}
			r := mrepo.New()
			lv := gen.AddLeaves(r)
			var es []mrepo.Entry
			for i := 0; i < width; i++ {
				leafEntries := []mrepo.Entry{{Mode: 0o100644, Name: "f", Child: lv.BlobA}}
				if distinct {
					leafEntries = append(leafEntries, mrepo.Entry{Mode: 0o100644, Name: fmt.Sprintf("g%d", i), Child: lv.BlobB})
				}
				es = append(es, mrepo.Entry{Mode: 0o40000, Name: fmt.Sprintf("d%03d", i), Child: r.AddTree(leafEntries)})
			}
			wide := r.AddTree(es)
			top := r.AddTree([]mrepo.Entry{{Mode: 0o40000, Name: "objects", Child: wide}, {Mode: 0o100644, Name: "readme", Child: lv.BlobC}})
			c := r.AddCommit(mrepo.CommitSpec{Tree: top, Time: gen.T0, Message: "wide\n"})
			r.SetRef("refs/heads/main", c)
			sc := &gen.Scenario{Repo: r, Desc: fmt.Sprintf("wide tree width=%d distinct=%v", width, distinct)}
			l := defaultListing(sc)
			n.beginScenario()
			n.one(sc, l.IDs, sizes.NameStyleNone, true, nil)
			n.one(sc, reverseNonCommits(r, l), sizes.NameStyleNone, true, nil)
			sh.C.Nontrivial++
		}
	}
	// name-byte variety on single-tree shapes (names only enter through len)
	names := []string{"x y", "\xff\xfe", strings.Repeat("n", 255), strings.Repeat("m", 4096), "tab\tname", "-dash", "é"}
	for i, nm := range names {
		for j, nm2 := range names {
			idx++
			if !sh.Mine(idx) || sh.Expired() {
				continue
			}
			r := mrepo.New()
			lv := gen.AddLeaves(r)
			sub := r.AddTree([]mrepo.Entry{{Mode: 0o100644, Name: nm2, Child: lv.BlobB}})
			top := r.AddTree([]mrepo.Entry{{Mode: 0o40000, Name: nm, Child: sub}, {Mode: 0o100644, Name: "plain", Child: lv.BlobA}})
			c := r.AddCommit(mrepo.CommitSpec{Tree: top, Time: gen.T0, Message: "m\n"})
			r.SetRef("refs/heads/main", c)
			sc := &gen.Scenario{Repo: r, Desc: fmt.Sprintf("names %d,%d", i, j)}
			l := defaultListing(sc)
			n.beginScenario()
			gen.Orders(sc.Repo, l, gen.OrderSpace{Trees: true}, func(order []mrepo.ID) bool {
				n.one(sc, order, sizes.NameStyleNone, true, nil)
				return true
			})
			sh.C.Nontrivial++
		}
	}
	n.end()
}

// ---------------------------------------------------------------- C01

type mixedCfg struct {
	k       int
	al      gen.TreeAlphabet
	commitN int
}

// mixedScenarios enumerates the C01 product family: tree DAGs x commit shapes
// x tag configurations, with noise objects; f gets the repository and its refs
// set up (selection is enumerated by the caller).
func mixedScenarios(tier string, f func(r *mrepo.Repo, special map[string]mrepo.ID, desc string) bool) {
	al := gen.TreeAlphabet{Names: []string{"a", "bb"}, Leaves: "als", MaxEntries: 1}
	if tier == "thorough" {
		al = gen.TreeAlphabet{Names: []string{"a", "bb"}, Leaves: "alse", MaxEntries: 2}
	}
	gen.TreeDAGs(2, al, func(r0 *mrepo.Repo, lv gen.Leaves, trees []mrepo.ID) bool {
		for shape := 0; shape < 4; shape++ {
			for tagcfg := 0; tagcfg < 5; tagcfg++ {
				r := *r0
				r.Objects = map[mrepo.ID]*mrepo.Object{}
				for k, v := range r0.Objects {
					r.Objects[k] = v
				}
				r.Order = append([]mrepo.ID(nil), r0.Order...)
				r.Refs = nil
				T0, T1 := trees[0], trees[1]
				c0 := r.AddCommit(mrepo.CommitSpec{Tree: T0, Time: gen.T0, Message: "c0\n"})
				c1 := r.AddCommit(mrepo.CommitSpec{Tree: T1, Parents: []mrepo.ID{c0}, Time: gen.T0 + 100, Message: "c1\n"})
				var ps []mrepo.ID
				switch shape {
				case 1:
					ps = []mrepo.ID{c0}
				case 2:
					ps = []mrepo.ID{c1}
				case 3:
					ps = []mrepo.ID{c1, c0}
				}
				c2 := r.AddCommit(mrepo.CommitSpec{Tree: T0, Parents: ps, Time: gen.T0 + 200, Message: "c2 is a little longer\n"})
				// noise: unreachable from every ref
				nb := r.AddBlob([]byte("noise blob"))
				nt := r.AddTree([]mrepo.Entry{{Mode: 0o100644, Name: "noise", Child: nb}})
				nc := r.AddCommit(mrepo.CommitSpec{Tree: nt, Parents: []mrepo.ID{c2}, Time: gen.T0 + 900, Message: "noise\n"})
				r.Head = string(nc) // detached HEAD on noise
				r.SetRef("refs/heads/main", c2)
				r.SetRef("refs/heads/side", c1)
				r.SetRef("refs/tags/lw", T0)
				if shape%2 == 1 {
					// a reference straight at a blob that the trees may contain as well
					r.SetRef("refs/tags/lwblob", lv.BlobA)
				} else {
					// a replace reference: an ordinary reference as far as a scan with
					// --no-replace-objects is concerned; its target is reachable from
					// nothing else
					r.SetRef("refs/replace/"+string(c0), nc)
				}
				var tA, tB mrepo.ID
				switch tagcfg {
				case 1:
					tA = r.AddTag(mrepo.TagSpec{Target: c2, Name: "ta", Time: gen.T0, Message: "m\n"})
				case 2:
					tA = r.AddTag(mrepo.TagSpec{Target: T1, Name: "ta", Time: gen.T0, Message: "m\n"})
				case 3:
					tA = r.AddTag(mrepo.TagSpec{Target: lv.BlobC, Name: "ta", Time: gen.T0, Message: "m\n"})
				case 4:
					tA = r.AddTag(mrepo.TagSpec{Target: c1, Name: "ta", Time: gen.T0, Message: "m\n"})
					tB = r.AddTag(mrepo.TagSpec{Target: tA, Name: "tb", Time: gen.T0, Message: "mm\n"})
				}
				if tA != "" {
					r.SetRef("refs/tags/ta", tA)
				}
				if tB != "" {
					r.SetRef("refs/tags/tb", tB)
				}
				special := map[string]mrepo.ID{"c0": c0, "T0": T0, "blobC": lv.BlobC, "tA": tA, "noise": nc}
				if !f(&r, special, fmt.Sprintf("trees=%s,%s shape=%d tagcfg=%d", T0.Short(), T1.Short(), shape, tagcfg)) {
					return false
				}
			}
		}
		return true
	})
}

func c01Worker(sh *explore.Shard) {
	n := newNumRun(sh, "C01", censusKeys)
	var idx int64
	idx++
	if sh.Mine(idx) {
		c01NoRefs(sh)
	}
	idx++
	if sh.Mine(idx) {
		c01AmbiguousRoots(sh)
	}
	// a tree with very many subdirectory entries, delivered before and after its
	// subtree: every object is still counted once (entry counts around 2^15 and 2^16)
	for _, wide := range []int{32767, 32768, 65535, 65536, 66000} {
		idx++
		if !sh.Mine(idx) || sh.Expired() {
			continue
		}
		r := mrepo.New()
		b := r.AddBlob([]byte("x"))
		sub := r.AddTree([]mrepo.Entry{{Mode: 0o100644, Name: "f", Child: b}})
		es := make([]mrepo.Entry, 0, wide)
		for i := 0; i < wide; i++ {
			es = append(es, mrepo.Entry{Mode: 0o40000, Name: fmt.Sprintf("d%06d", i), Child: sub})
		}
		c := r.AddCommit(mrepo.CommitSpec{Tree: r.AddTree(es), Time: gen.T0, Message: "wide\n"})
		r.SetRef("refs/heads/main", c)
		sc := &gen.Scenario{Repo: r, Desc: fmt.Sprintf("tree with %d subdirectory entries", wide)}
		l := defaultListing(sc)
		n.beginScenario()
		n.one(sc, l.IDs, sizes.NameStyleNone, false, nil)
		n.one(sc, reverseNonCommits(r, l), sizes.NameStyleNone, false, nil)
		sh.C.Nontrivial++
	}
	mixedScenarios(sh.Tier, func(r *mrepo.Repo, special map[string]mrepo.ID, desc string) bool {
		idx++
		if !sh.Mine(idx) {
			return true
		}
		if sh.Expired() {
			return false
		}
		nrefs := len(r.Refs)
		explicitChoices := [][][2]string{nil,
			{{"c0", string(special["c0"])}},
			{{"T0", string(special["T0"])}},
			{{"blobC", string(special["blobC"])}}}
		if special["tA"] != "" {
			explicitChoices = append(explicitChoices, [][2]string{{"tA", string(special["tA"])}, {"c0", string(special["c0"])}})
		}
		n.beginScenario()
		for mask := uint(0); mask < 1<<uint(nrefs); mask++ {
			walk := map[string]bool{}
			for i, ref := range r.Refs {
				if mask&(1<<uint(i)) != 0 {
					walk[ref.Name] = true
				}
			}
			for ei, ex := range explicitChoices {
				if mask == 0 && ex == nil {
					continue // no roots at all: rev-list with empty stdin; covered below
				}
				sc := &gen.Scenario{Repo: r, WalkRefs: walk, Explicit: ex, Desc: fmt.Sprintf("%s refs=%b root=%d", desc, mask, ei)}
				l := defaultListing(sc)
				n.one(sc, l.IDs, sizes.NameStyleNone, false, nil)
				if (int64(mask)*7+int64(ei))%41 == idx%41 {
					n.maybeConform(sc, idx, 17)
				}
				// one deviation from git's order: everything non-commit reversed
				rev := reverseNonCommits(r, l)
				n.one(sc, rev, sizes.NameStyleNone, false, nil)
				sh.C.Nontrivial++
				if idx == 1 && mask == 3 && ei == 1 {
					sh.C.Sample(2, map[string]any{"desc": sc.Desc, "repo": r.Describe(), "walked_refs": keys(walk), "explicit": ex})
				}
			}
		}
		// the empty selection: no reference walked, no ROOT: everything must be zero
		sc := &gen.Scenario{Repo: r, WalkRefs: map[string]bool{}, Desc: desc + " no roots"}
		n.one(sc, nil, sizes.NameStyleNone, false, nil)
		return true
	})
	n.end()
}

// c01NoRefs: a repository without any reference and with a detached HEAD,
// measured by the real binary with real git and no argument at all: nothing is
// selected, so everything must be zero (HEAD is not a root).
func c01NoRefs(sh *explore.Shard) {
	r := mrepo.New()
	lv := gen.AddLeaves(r)
	t := r.AddTree([]mrepo.Entry{{Mode: 0o100644, Name: "a", Child: lv.BlobC}})
	c0 := r.AddCommit(mrepo.CommitSpec{Tree: t, Time: gen.T0, Message: "c0\n"})
	c1 := r.AddCommit(mrepo.CommitSpec{Tree: t, Parents: []mrepo.ID{c0}, Time: gen.T0 + 100, Message: "c1\n"})
	r.Head = string(c1)
	dir := scratch("c01n")
	defer os.RemoveAll(dir)
	gd := filepath.Join(dir, "repo.git")
	if err := realgit.Materialise(r, gd); err != nil {
		return
	}
	for _, args := range [][]string{{"--json", "--no-progress"}, {"--json", "--no-progress", "--branches"}, {"--json", "--no-progress", "--no-tags"}} {
		res := cli.Run(gd, "", nil, 60*time.Second, args...)
		sh.C.Evals++
		sh.C.Nontrivial++
		sh.C.Add("cli_real_runs", 1)
		mk := func(msg string) {
			sh.C.Violate(explore.Violation{Property: "C01", Class: "cli-mismatch", Msg: fmt.Sprintf("repository without references, detached HEAD, args %v: %s", args, msg),
				Case: caseJSON(sh.Index(), map[string]any{"args": args}), Detail: r.Describe()})
		}
		if res.Exit != 0 {
			mk(fmt.Sprintf("exit %d: %s", res.Exit, tailBytes(res.Stderr, 300)))
			continue
		}
		nums, _, err := parseV1(res.Stdout)
		if err != nil {
			mk("invalid JSON")
			continue
		}
		for _, k := range censusKeys {
			if nums[k] != 0 {
				mk(fmt.Sprintf("%s = %d although no root is selected (HEAD is not a root)", k, nums[k]))
			}
		}
	}
}

// c01AmbiguousRoots: ROOT arguments that are short names of both a branch and a
// tag pointing at different objects (git prefers the tag), through the real
// binary with real git: the census is that of the object git resolves the name to.
func c01AmbiguousRoots(sh *explore.Shard) {
	r, ids := c08Repo()
	dir := scratch("c01a")
	defer os.RemoveAll(dir)
	gd := filepath.Join(dir, "repo.git")
	if err := realgit.Materialise(r, gd); err != nil {
		return
	}
	for _, name := range []string{"v1", "other", "heads/v1", "tags/other", "main"} {
		out, _, exit := realgit.Run(gd, nil, "rev-parse", "--verify", "--end-of-options", name)
		if exit != 0 {
			continue
		}
		oid := strings.TrimSpace(string(out))
		for _, extra := range [][]string{nil, {"--include", "refs/heads/main"}} {
			args := append(append([]string{"--json", "--no-progress"}, extra...), name)
			res := cli.Run(gd, "", nil, 60*time.Second, args...)
			sh.C.Evals++
			sh.C.Nontrivial++
			sh.C.Add("cli_real_runs", 1)
			mk := func(msg string) {
				sh.C.Violate(explore.Violation{Property: "C01", Class: "cli-mismatch", Msg: fmt.Sprintf("ROOT %q (git resolves it to %s), args %v: %s", name, oid[:7], args, msg),
					Case: caseJSON(sh.Index(), map[string]any{"args": args}), Detail: r.Describe()})
			}
			if res.Exit != 0 {
				mk(fmt.Sprintf("exit %d: %s", res.Exit, tailBytes(res.Stderr, 300)))
				continue
			}
			nums, _, err := parseV1(res.Stdout)
			if err != nil {
				mk("invalid JSON")
				continue
			}
			walk := map[string]bool{}
			if extra != nil {
				walk["refs/heads/main"] = true
			}
			sc := &gen.Scenario{Repo: r, WalkRefs: walk, Explicit: [][2]string{{name, oid}}}
			want := oracle.Compute(r, sc.Roots()).Numbers()
			for _, k := range censusKeys {
				if nums[k] != want[k] {
					mk(fmt.Sprintf("%s: reported %d, true %d", k, nums[k], want[k]))
				}
			}
		}
	}
	_ = ids
}

func keys(m map[string]bool) []string {
	var k []string
	for s := range m {
		k = append(k, s)
	}
	sort.Strings(k)
	return k
}

func reverseNonCommits(r *mrepo.Repo, l *modelgit.Listing) []mrepo.ID {
	var commits, rest []mrepo.ID
	for _, id := range l.IDs {
		if l.IsCommit[id] {
			commits = append(commits, id)
		} else {
			rest = append(rest, id)
		}
	}
	for a, b := 0, len(rest)-1; a < b; a, b = a+1, b-1 {
		rest[a], rest[b] = rest[b], rest[a]
	}
	return append(commits, rest...)
}

// ---------------------------------------------------------------- C02

func c02Worker(sh *explore.Shard) {
	n := newNumRun(sh, "C02", biggestKeys)
	var idx int64
	maxN := 3
	lens := []int{0, 7}
	if sh.Tier == "thorough" {
		maxN = 4
		lens = []int{0, 7, 30}
	}
	// (a) commits: all DAGs x message-length vectors (ties included) x all linear extensions
	for nn := 1; nn <= maxN+1 && !sh.Expired(); nn++ {
		gen.CommitDAGs(nn, func(r0 *mrepo.Repo, _ []mrepo.ID, masks []uint) bool {
			nv := 1
			for i := 0; i < nn; i++ {
				nv *= len(lens)
			}
			for v := 0; v < nv; v++ {
				idx++
				if !sh.Mine(idx) {
					continue
				}
				if sh.Expired() {
					return false
				}
				// rebuild the DAG with the chosen message lengths
				r := mrepo.New()
				lv := gen.AddLeaves(r)
				tree := r.AddTree([]mrepo.Entry{{Mode: 0o100644, Name: "a", Child: lv.BlobA}})
				ids := make([]mrepo.ID, nn)
				vv := v
				for c := 0; c < nn; c++ {
					var ps []mrepo.ID
					for p := c - 1; p >= 0; p-- {
						if masks[c]&(1<<uint(p)) != 0 {
							ps = append(ps, ids[p])
						}
					}
					ml := lens[vv%len(lens)]
					vv /= len(lens)
					// the message text differs per commit but its length is what is chosen
					msg := fmt.Sprintf("%d", c) + strings.Repeat("m", ml) + "\n"
					ids[c] = r.AddCommit(mrepo.CommitSpec{Tree: tree, Parents: ps, Time: gen.T0 + int64(c)*100, Message: msg})
				}
				// roots: all childless commits
				hasChild := map[mrepo.ID]bool{}
				for _, id := range ids {
					for _, p := range r.Objects[id].Parents {
						hasChild[p] = true
					}
				}
				for c, id := range ids {
					if !hasChild[id] {
						r.SetRef(fmt.Sprintf("refs/heads/tip%d", c), id)
					}
				}
				sc := &gen.Scenario{Repo: r, Desc: fmt.Sprintf("commits n=%d masks=%v lens#%d", nn, masks, v)}
				l := defaultListing(sc)
				n.beginScenario()
				n.maybeConform(sc, idx, 29)
				cnt, _ := gen.Orders(r, l, n.space(gen.OrderSpace{Commits: true}, sc), func(order []mrepo.ID) bool {
					n.one(sc, order, sizes.NameStyleNone, true, nil)
					return true
				})
				if cnt > 1 {
					sh.C.Nontrivial++
				}
				if idx%501 == 1 {
					sh.C.Sample(2, map[string]any{"desc": sc.Desc, "orders": cnt})
				}
			}
			return true
		})
	}
	// (b) blobs and trees: sizes/entry counts with the maximum at every position and ties
	sizesAlpha := []int{0, 3, 9}
	nb := 3
	if sh.Tier == "thorough" {
		nb = 4
	}
	total := 1
	for i := 0; i < nb; i++ {
		total *= len(sizesAlpha)
	}
	for v := 0; v < total && !sh.Expired(); v++ {
		for layout := 0; layout < 3; layout++ {
			idx++
			if !sh.Mine(idx) {
				continue
			}
			r := mrepo.New()
			var blobs []mrepo.ID
			vv := v
			for b := 0; b < nb; b++ {
				sz := sizesAlpha[vv%len(sizesAlpha)]
				vv /= len(sizesAlpha)
				content := []byte(strings.Repeat(string(rune('A'+b)), sz))
				if sz == 0 {
					content = nil
				}
				blobs = append(blobs, r.AddBlob(content))
			}
			// layouts: 0 = all in one tree; 1 = one tree per blob nested; 2 = entry counts 0..nb over nb trees
			var top mrepo.ID
			switch layout {
			case 0:
				var es []mrepo.Entry
				for b, id := range blobs {
					es = append(es, mrepo.Entry{Mode: 0o100644, Name: fmt.Sprintf("f%d", b), Child: id})
				}
				top = r.AddTree(es)
			case 1:
				cur := mrepo.ID("")
				for b, id := range blobs {
					es := []mrepo.Entry{{Mode: 0o100644, Name: fmt.Sprintf("f%d", b), Child: id}}
					if cur != "" {
						es = append(es, mrepo.Entry{Mode: 0o40000, Name: "sub", Child: cur})
					}
					cur = r.AddTree(es)
				}
				top = cur
			case 2:
				var subs []mrepo.Entry
				for t := 0; t < nb; t++ {
					var es []mrepo.Entry
					for b := 0; b <= (t+v)%(nb); b++ {
						es = append(es, mrepo.Entry{Mode: 0o100644, Name: fmt.Sprintf("g%d", b), Child: blobs[b]})
					}
					subs = append(subs, mrepo.Entry{Mode: 0o40000, Name: fmt.Sprintf("d%d", t), Child: r.AddTree(es)})
				}
				top = r.AddTree(subs[:1+(v%len(subs))])
			}
			c := r.AddCommit(mrepo.CommitSpec{Tree: top, Time: gen.T0, Message: "m\n"})
			r.SetRef("refs/heads/main", c)
			sc := &gen.Scenario{Repo: r, Desc: fmt.Sprintf("blobs v=%d layout=%d", v, layout)}
			l := defaultListing(sc)
			n.beginScenario()
			n.maybeConform(sc, idx, 5)
			cnt, _ := gen.Orders(r, l, gen.OrderSpace{Trees: true, Blobs: true, Max: 720}, func(order []mrepo.ID) bool {
				n.one(sc, order, sizes.NameStyleNone, true, nil)
				return true
			})
			if cnt > 1 {
				sh.C.Nontrivial++
			}
		}
	}
	// (d) tree DAGs with every entry kind (gitlinks and symlinks are entries too) x all tree orders
	{
		al := gen.TreeAlphabet{Names: []string{"a", "bbb", "c"}, Leaves: "blsg", MaxEntries: 3}
		kmax := 2
		gen.TreeDAGs(kmax, al, func(r *mrepo.Repo, lv gen.Leaves, trees []mrepo.ID) bool {
			idx++
			if !sh.Mine(idx) {
				return true
			}
			if sh.Expired() {
				return false
			}
			sc := treeScenario(r, trees, false)
			sc.Desc = fmt.Sprintf("entry kinds treedag #%d", idx)
			l := defaultListing(sc)
			n.beginScenario()
			cnt, _ := gen.Orders(sc.Repo, l, gen.OrderSpace{Trees: true}, func(order []mrepo.ID) bool {
				n.one(sc, order, sizes.NameStyleNone, true, nil)
				return true
			})
			if cnt > 1 {
				sh.C.Nontrivial++
			}
			return true
		})
	}
	// (e) blobs around the capacity of the 32-bit size counter (sizes only: the
	// scan never reads blob contents): the maximum is min(true maximum, 2^32-1)
	// wherever the huge blob sits in the enumeration
	{
		huge := []uint64{1<<32 - 1, 1 << 32, 1<<32 + 5, 3 << 32}
		for hi, hs := range huge {
			for pos := 0; pos < 3; pos++ {
				idx++
				if !sh.Mine(idx) || sh.Expired() {
					continue
				}
				r := mrepo.New()
				var es []mrepo.Entry
				for b := 0; b < 3; b++ {
					var id mrepo.ID
					if b == pos {
						id = r.AddVirtualBlob(fmt.Sprintf("huge%d", hi), hs)
					} else {
						id = r.AddVirtualBlob(fmt.Sprintf("small%d", b), uint64(1000+b))
					}
					es = append(es, mrepo.Entry{Mode: 0o100644, Name: fmt.Sprintf("f%d", b), Child: id})
				}
				top := r.AddTree(es)
				c := r.AddCommit(mrepo.CommitSpec{Tree: top, Time: gen.T0, Message: "m\n"})
				r.SetRef("refs/heads/main", c)
				sc := &gen.Scenario{Repo: r, Desc: fmt.Sprintf("huge blob of %d bytes at position %d", hs, pos)}
				l := defaultListing(sc)
				n.beginScenario()
				gen.Orders(r, l, gen.OrderSpace{Blobs: true, Max: 720}, func(order []mrepo.ID) bool {
					n.one(sc, order, sizes.NameStyleNone, true, nil)
					return true
				})
				sh.C.Nontrivial++
			}
		}
	}
	// (f) a commit that lists the same parent more than once (fast-import and
	// hash-object write such commits, fsck accepts them): the number of parents is
	// the number of parent headers
	{
		for shape := 0; shape < 4; shape++ {
			idx++
			if !sh.Mine(idx) || sh.Expired() {
				continue
			}
			r := mrepo.New()
			lv := gen.AddLeaves(r)
			tree := r.AddTree([]mrepo.Entry{{Mode: 0o100644, Name: "a", Child: lv.BlobA}})
			c0 := r.AddCommit(mrepo.CommitSpec{Tree: tree, Time: gen.T0, Message: "c0\n"})
			c1 := r.AddCommit(mrepo.CommitSpec{Tree: tree, Parents: []mrepo.ID{c0}, Time: gen.T0 + 100, Message: "c1\n"})
			ps := [][]mrepo.ID{{c0, c0}, {c1, c0, c1}, {c0, c1, c0, c1, c0}, {c1, c1, c1}}[shape]
			dup := r.AddCommit(mrepo.CommitSpec{Tree: tree, Parents: ps, Time: gen.T0 + 200, Message: "same parent listed repeatedly\n"})
			// an ordinary merge with fewer parent headers than dup has
			m := r.AddCommit(mrepo.CommitSpec{Tree: tree, Parents: []mrepo.ID{dup, c1}, Time: gen.T0 + 300, Message: "merge\n"})
			r.SetRef("refs/heads/main", m)
			sc := &gen.Scenario{Repo: r, Desc: fmt.Sprintf("commit with %d parent headers naming %d distinct parents", len(ps), 1+shape%3/1)}
			l := defaultListing(sc)
			n.beginScenario()
			n.maybeConform(sc, 0, 1)
			gen.Orders(r, l, n.space(gen.OrderSpace{Commits: true}, sc), func(order []mrepo.ID) bool {
				n.one(sc, order, sizes.NameStyleNone, true, nil)
				return true
			})
			sh.C.Nontrivial++
		}
	}
	// (g) very wide trees: entry counts around 2^8 and 2^16 next to a smaller
	// tree, in both delivery orders (all entries share one blob)
	{
		for _, wide := range []int{255, 256, 257, 65535, 65536, 65537, 65636} {
			idx++
			if !sh.Mine(idx) || sh.Expired() {
				continue
			}
			r := mrepo.New()
			b := r.AddBlob([]byte("x"))
			mk := func(k int, pfx string) mrepo.ID {
				es := make([]mrepo.Entry, 0, k)
				for i := 0; i < k; i++ {
					es = append(es, mrepo.Entry{Mode: 0o100644, Name: fmt.Sprintf("%s%06d", pfx, i), Child: b})
				}
				return r.AddTree(es)
			}
			top := r.AddTree([]mrepo.Entry{{Mode: 0o40000, Name: "big", Child: mk(wide, "f")}, {Mode: 0o40000, Name: "small", Child: mk(200, "g")}})
			c := r.AddCommit(mrepo.CommitSpec{Tree: top, Time: gen.T0, Message: "wide\n"})
			r.SetRef("refs/heads/main", c)
			sc := &gen.Scenario{Repo: r, Desc: fmt.Sprintf("tree with %d entries next to one with 200", wide)}
			l := defaultListing(sc)
			n.beginScenario()
			n.one(sc, l.IDs, sizes.NameStyleNone, true, nil)
			n.one(sc, reverseNonCommits(r, l), sizes.NameStyleNone, true, nil)
			sh.C.Nontrivial++
		}
	}
	// (c) absent kinds: blob-only and tree-only root sets must report 0 for the other kinds
	{
		idx++
		if sh.Mine(idx) {
			r := mrepo.New()
			lv := gen.AddLeaves(r)
			t := r.AddTree([]mrepo.Entry{{Mode: 0o100644, Name: "a", Child: lv.BlobA}})
			r.SetRef("refs/tags/blob", lv.BlobC)
			r.SetRef("refs/tags/tree", t)
			for _, walk := range []map[string]bool{{"refs/tags/blob": true}, {"refs/tags/tree": true}, {"refs/tags/blob": true, "refs/tags/tree": true}} {
				sc := &gen.Scenario{Repo: r, WalkRefs: walk, Desc: "absent kinds " + fmt.Sprint(keys(walk))}
				n.beginScenario()
				n.one(sc, defaultListing(sc).IDs, sizes.NameStyleNone, false, nil)
				sh.C.Nontrivial++
			}
		}
	}
	n.end()
}

// ---------------------------------------------------------------- C09 (in-proc part)

func c09Worker(sh *explore.Shard) {
	n := newNumRun(sh, "C09", allNumericKeys())
	var idx int64
	// every listing order of trees and tags, every linear extension of commits,
	// every blob order, every root order, on mixed repositories
	mixedScenarios(sh.Tier, func(r *mrepo.Repo, special map[string]mrepo.ID, desc string) bool {
		idx++
		if !sh.Mine(idx) {
			return true
		}
		if sh.Expired() {
			return false
		}
		sc := &gen.Scenario{Repo: r, Explicit: [][2]string{{"blobC", string(special["blobC"])}}, Desc: desc}
		l := defaultListing(sc)
		n.beginScenario()
		n.maybeConform(sc, idx, 7)
		max := 2000
		if sh.Tier == "thorough" {
			max = 50000
		}
		cnt, capped := gen.Orders(r, l, n.space(gen.OrderSpace{Commits: true, Trees: true, Tags: true, Blobs: true, Max: max}, sc), func(order []mrepo.ID) bool {
			n.one(sc, order, sizes.NameStyleNone, true, nil)
			return true
		})
		if capped {
			sh.C.Add("scenarios_with_order_cap", 1)
		}
		// root orders: all permutations of the reference listing
		nr := len(r.Refs)
		if nr <= 5 {
			explore.Perm(nr, func(p []int) bool {
				n.one(sc, l.IDs, sizes.NameStyleNone, true, append([]int(nil), p...))
				return true
			})
		}
		if cnt > 1 {
			sh.C.Nontrivial++
		}
		if idx%97 == 1 {
			sh.C.Sample(3, map[string]any{"desc": sc.Desc, "orders": cnt, "root_orders": "all permutations of the reference list"})
		}
		return true
	})
	c09GraphSearch(sh, &idx)
	// storage layouts: the same object graph loose, repacked, with packed refs,
	// after gc: the real binary with real git must print identical numbers
	mixedScenarios("quick", func(r *mrepo.Repo, special map[string]mrepo.ID, desc string) bool {
		idx++
		stride := int64(37)
		if sh.Tier == "thorough" {
			stride = 5
		}
		if idx%stride != 0 || !sh.Mine(idx) || sh.Expired() {
			return true
		}
		c09Layouts(sh, &gen.Scenario{Repo: r, Desc: desc})
		return true
	})
	// root-order family: references aliasing the same object, every subset of
	// the references as selection, every permutation of the reference listing,
	// every order of the ROOT arguments
	for shape := 0; shape < 4 && !sh.Expired(); shape++ {
		for tagcfg := 0; tagcfg < 3; tagcfg++ {
			idx++
			if !sh.Mine(idx) {
				continue
			}
			r := mrepo.New()
			lv := gen.AddLeaves(r)
			t0 := r.AddTree([]mrepo.Entry{{Mode: 0o100644, Name: "a", Child: lv.BlobA}})
			t1 := r.AddTree([]mrepo.Entry{{Mode: 0o40000, Name: "d", Child: t0}, {Mode: 0o100755, Name: "x", Child: lv.BlobB}})
			c0 := r.AddCommit(mrepo.CommitSpec{Tree: t0, Time: gen.T0, Message: "c0\n"})
			var ps []mrepo.ID
			if shape&1 != 0 {
				ps = append(ps, c0)
			}
			c1 := r.AddCommit(mrepo.CommitSpec{Tree: t1, Parents: ps, Time: gen.T0 + 100, Message: "c1\n"})
			r.SetRef("refs/heads/main", c1)
			r.SetRef("refs/tags/alias", c1) // same object as main
			if shape&2 != 0 {
				r.SetRef("refs/heads/old", c0)
			} else {
				r.SetRef("refs/heads/old", c1)
			}
			var tg mrepo.ID
			switch tagcfg {
			case 1:
				tg = r.AddTag(mrepo.TagSpec{Target: c1, Name: "v", Time: gen.T0, Message: "v\n"})
			case 2:
				tg = r.AddTag(mrepo.TagSpec{Target: t0, Name: "v", Time: gen.T0, Message: "v\n"})
			}
			if tg != "" {
				r.SetRef("refs/tags/v", tg)
				r.SetRef("refs/tags/v2", tg)
			}
			nr := len(r.Refs)
			n.beginScenario()
			for mask := uint(1); mask < 1<<uint(nr); mask++ {
				walk := map[string]bool{}
				for i, ref := range r.Refs {
					if mask&(1<<uint(i)) != 0 {
						walk[ref.Name] = true
					}
				}
				for _, ex := range [][][2]string{nil, {{"c1", string(c1)}, {"t0", string(t0)}}, {{"t0", string(t0)}, {"c1", string(c1)}, {"c1again", string(c1)}}} {
					sc := &gen.Scenario{Repo: r, WalkRefs: walk, Explicit: ex, Desc: fmt.Sprintf("rootorder shape=%d tagcfg=%d refs=%b explicit=%d", shape, tagcfg, mask, len(ex))}
					l := defaultListing(sc)
					n.first = nil
					explore.Perm(nr, func(p []int) bool {
						n.one(sc, l.IDs, sizes.NameStyleNone, true, append([]int(nil), p...))
						return true
					})
					sh.C.Nontrivial++
				}
			}
			sh.C.Sample(4, map[string]any{"desc": fmt.Sprintf("rootorder shape=%d tagcfg=%d", shape, tagcfg), "refs": nr, "what": "every subset of refs x every permutation of the reference listing x 3 ROOT lists"})
		}
	}
	n.end()
}

// c09Layouts materialises the scenario and re-runs the CLI after each change of
// storage layout; stdout (JSON, names off) must stay byte-identical and equal
// to the oracle.
func c09Layouts(sh *explore.Shard, sc *gen.Scenario) {
	dir := scratch("c09l")
	defer os.RemoveAll(dir)
	gd := filepath.Join(dir, "repo.git")
	if err := realgit.Materialise(sc.Repo, gd); err != nil {
		return
	}
	want := oracle.Compute(sc.Repo, sc.Roots()).Numbers()
	var first []byte
	steps := [][]string{nil, {"pack-refs", "--all"}, {"repack", "-a", "-d", "-q"}, {"gc", "-q"}, {"gc", "-q", "--aggressive", "--prune=now"}, {"repack", "-a", "-d", "-q", "-f", "--depth=1"},
		{"(mark every pack as a promisor pack)"}}
	for _, st := range steps {
		layout := "loose"
		if st != nil && strings.HasPrefix(st[0], "(") {
			// how git stores what it fetched from a partial-clone remote: the pack
			// has a .promisor file next to it
			layout = st[0]
			packs, _ := filepath.Glob(filepath.Join(gd, "objects", "pack", "pack-*.pack"))
			if len(packs) == 0 {
				continue
			}
			for _, pk := range packs {
				os.WriteFile(strings.TrimSuffix(pk, ".pack")+".promisor", nil, 0o644)
			}
		} else if st != nil {
			layout = strings.Join(st, " ")
			if out, err := realgit.RunPlain(gd, []string{"GIT_DIR=" + gd}, st...); err != nil {
				sh.C.Notes = append(sh.C.Notes, "git "+layout+" failed: "+string(out))
				return
			}
		}
		res := cli.Run(gd, "", nil, 60*time.Second, "--json", "--no-progress", "--names=none")
		sh.C.Evals++
		sh.C.Add("layout_runs", 1)
		mk := func(class, msg string) {
			sh.C.Violate(explore.Violation{Property: "C09", Class: class, Msg: fmt.Sprintf("layout %q: %s [%s]", layout, msg, sc.Desc),
				Case: caseJSON(sh.Index(), map[string]any{"desc": sc.Desc, "layout": layout}), Detail: sc.Repo.Describe()})
		}
		if res.Exit != 0 {
			mk("cli-error", fmt.Sprintf("exit %d: %s", res.Exit, tailBytes(res.Stderr, 300)))
			return
		}
		if first == nil {
			first = res.Stdout
			nums, _, _ := parseV1(res.Stdout)
			for _, k := range allNumericKeys() {
				if nums[k] != want[k] {
					mk("cli-mismatch", fmt.Sprintf("%s: reported %d, true %d", k, nums[k], want[k]))
				}
			}
		} else if !bytes.Equal(first, res.Stdout) {
			mk("layout-dependent", "the report differs from the one for loose storage")
		}
	}
	sh.C.Nontrivial++
}

// confirmAtCLI runs the real git-sizer with the model git executing the given
// listing order and tells whether the real program misbehaves there too
// (non-zero exit / panic, or an owned number different from the oracle).
func confirmAtCLI(sc *gen.Scenario, order []mrepo.ID, owned []string) (bool, string) {
	for _, o := range sc.Repo.Objects {
		_ = o
	}
	dir := scratch("confirm")
	defer os.RemoveAll(dir)
	fs, err := cli.NewFakeSession(filepath.Join(dir, "fake"), sc.Repo, &modelgit.Plan{GitDir: "/model/.git", ListOrder: order})
	if err != nil {
		return true, "cannot set up the model git: " + err.Error()
	}
	args := append([]string{"--json", "--no-progress", "--names=none"}, sizerArgs(sc)...)
	res := cli.Run(dir, cli.FakeGitDir, fs.Env(), 60*time.Second, args...)
	if res.TimedOut || res.Exit != 0 {
		return true, ""
	}
	nums, _, err := parseV1(res.Stdout)
	if err != nil {
		return true, ""
	}
	want := oracle.Compute(sc.Repo, sc.Roots()).Numbers()
	for _, k := range owned {
		if nums[k] != want[k] {
			return true, ""
		}
	}
	return false, "exit 0 and every owned number equals the oracle"
}

func init() {
	asm := []string{
		"the model git (modelgit) answers as git 2.39.5 does for the commands git-sizer issues; bound by the conformance pass (./check conformance) against real git",
		"the in-process command stage of shimpipe stands in for os/exec; all other go-pipe code is the verbatim v1.0.2 source",
		"listing orders explored are all orders satisfying the one guarantee git-sizer relies on (no commit before all of its listed children)",
	}
	Registry["C01"] = &Check{Level: "model_checking", Worker: c01Worker, QuickBudget: 150 * time.Second, ThoroughBudget: 8 * time.Minute,
		Rule: "bounded-exhaustive product of tree DAGs (2 trees) x 4 commit shapes x 5 tag configurations with unreachable noise and detached HEAD; for each every subset of references as selection x ROOT in {none, commit, tree, blob, tag+commit}; scanned in-process by the real CollectReferences+ScanRepositoryUsingGraph under git's order and one deviation; census keys compared with the independent oracle; a repository without any reference and with a detached HEAD measured by the real binary with no selection must report zero. non-trivial = a (repository, selection) pair with at least one root", Assumptions: asm}
	Registry["C02"] = &Check{Level: "model_checking", Worker: c02Worker, QuickBudget: 150 * time.Second, ThoroughBudget: 8 * time.Minute,
		Rule: "all commit DAGs (n<=4 quick, n<=5 thorough) x all message-length vectors (2 lengths quick, 3 thorough, ties included) x all linear extensions; blob-size vectors over {0,3,9} x 3 layouts x all tree/blob listing permutations (cap 720); all tree DAGs of 2 trees over entry kinds file/exec/symlink/gitlink/legacy-mode file x all tree orders; blobs of 2^32-1..3*2^32 bytes at every position; commits listing the same parent repeatedly; trees of 255..65636 entries next to a smaller one in both delivery orders; blob-only/tree-only root sets; maxima compared with the oracle. non-trivial = scenario with more than one listing order", Assumptions: asm}
	Registry["C03"] = &Check{Level: "model_checking", Worker: c03Worker, QuickBudget: 150 * time.Second, ThoroughBudget: 10 * time.Minute,
		Rule: "all commit DAGs on n commits (n<=4 quick, n<=5 thorough) x all non-empty root subsets x all linear extensions of the listing; all tag forests on m tags (m<=4 / 5) x all non-empty root subsets x all m! listing orders; max_history_depth and max_tag_depth compared with the longest-chain oracle; real git deciding the order: every DAG on n<=3 (quick) / n<=4 (thorough) commits x every assignment of distinct timestamps (children older than parents included) through the real binary with real git. non-trivial = scenario with more than one admissible order", Assumptions: asm}
	Registry["C04"] = &Check{Level: "model_checking", Worker: c04Worker, QuickBudget: 150 * time.Second, ThoroughBudget: 20 * time.Minute,
		Rule: "all tree DAGs with <=3 generated trees over the tier's name/leaf alphabet x all listing permutations of the trees; other trees reached from a lightweight tag or an annotated tag of a tree; wide trees (255/256/257/600 subdirectories); special-name single shapes; seven checkout dimensions compared separately with the recursive-expansion oracle. non-trivial = scenario with more than one listing order", Assumptions: asm}
	Registry["C09"] = &Check{Level: "model_checking", Worker: c09Worker, QuickBudget: 150 * time.Second, ThoroughBudget: 30 * time.Minute,
		Rule: "for each mixed repository (trees x commit shapes x tag configurations): every listing permutation of trees, tags, blobs and every linear extension of commits (capped per scenario, cap reported) and every permutation of the reference listing; all numeric keys must equal the first order's and the oracle's; root-order family (every subset of aliasing references x every permutation of the reference listing x 3 ROOT lists); explicit-state search at the Graph API with full state keys (states = delivered sets, every path into a set must give the same canonical key of the entire private state; tree DAGs with 3 (4) generated trees, a 10 (12)-tree shared DAG, wide trees of 255/256/257/300 entries, all tag forests on 5 (6) tags); storage layouts with real git (loose, pack-refs, repack -ad, gc, gc --aggressive --prune=now, repack -f --depth=1) on every 37th (quick) / 5th (thorough) mixed repository: byte-identical JSON equal to the oracle", Assumptions: asm}
}
