package checks

import (
	"bytes"
	"encoding/json"
	"fmt"
	"os"
	"path/filepath"
	"strings"
	"time"

	"verif/cli"
	"verif/explore"
	"verif/gen"
	"verif/modelgit"
	"verif/mrepo"
	"verif/oracle"
	"verif/realgit"
)

// scratch returns a fresh scratch directory outside /repo and /verif.
func scratch(tag string) string {
	base := os.Getenv("VERIF_SCRATCH")
	if base == "" {
		base = os.TempDir()
	}
	d, err := os.MkdirTemp(base, "verif-"+tag+"-")
	if err != nil {
		panic(err)
	}
	return d
}

// fakeUnmodelled returns a read-only git command the model git was asked for
// but does not implement ("" if none): such a run is no verdict.
func fakeUnmodelled(fs *cli.FakeSession) string {
	for _, inv := range fs.Log() {
		if inv.Kind == modelgit.KUnexpected && modelgit.LooksReadOnly(inv.Args) {
			return fmt.Sprint(inv.Args)
		}
	}
	return ""
}

// sizerArgs renders a scenario's root selection as git-sizer options.
func sizerArgs(sc *gen.Scenario) []string {
	var args []string
	if sc.WalkRefs != nil {
		n := 0
		for _, r := range sc.Repo.Refs {
			if sc.WalkRefs[r.Name] {
				args = append(args, "--include", r.Name)
				n++
			}
		}
		if n == 0 && len(sc.Explicit) == 0 {
			args = append(args, "--exclude", "refs")
		}
	} else if len(sc.Explicit) > 0 {
		// all references plus explicit roots
		args = append(args, "--include", "refs")
	}
	for _, e := range sc.Explicit {
		args = append(args, e[1])
	}
	return args
}

func parseV1(b []byte) (map[string]uint64, map[string]string, error) {
	var m map[string]json.RawMessage
	if err := json.Unmarshal(b, &m); err != nil {
		return nil, nil, err
	}
	nums := map[string]uint64{}
	strs := map[string]string{}
	for k, v := range m {
		var u uint64
		if json.Unmarshal(v, &u) == nil {
			nums[k] = u
			continue
		}
		var s string
		if json.Unmarshal(v, &s) == nil {
			strs[k] = s
		}
	}
	return nums, strs, nil
}

// conform materialises the scenario, compares every model-git answer with real
// git's, and compares the real CLI (real git) with the oracle. It returns the
// number of comparisons made. Model/real disagreements are harness errors;
// CLI/oracle disagreements on owned keys are property violations.
func conform(sh *explore.Shard, prop string, owned []string, sc *gen.Scenario) {
	for _, o := range sc.Repo.Objects {
		if o.Virtual {
			return
		}
	}
	dir := scratch("conf")
	defer os.RemoveAll(dir)
	gd := filepath.Join(dir, "repo.git")
	if err := realgit.Materialise(sc.Repo, gd); err != nil {
		sh.C.Notes = append(sh.C.Notes, "materialise: "+err.Error())
		return
	}
	herr := func(format string, a ...any) {
		sh.C.Violate(explore.Violation{Property: prop, Class: "HARNESS/conformance", Msg: fmt.Sprintf(format, a...),
			Case: caseJSON(sh.Index(), map[string]any{"desc": sc.Desc}), Detail: sc.Repo.Describe()})
	}
	env := modelgit.NewEnv(sc.Repo, &modelgit.Plan{})
	model := func(stdin []byte, args ...string) ([]byte, int) {
		var out bytes.Buffer
		full := append([]string{"--no-replace-objects", "-c", "advice.graftFileDeprecated=false"}, args...)
		exit, _ := env.Run(full, nil, bytes.NewReader(stdin), &out, 0)
		return out.Bytes(), exit
	}
	// 1. for-each-ref
	fmtArg := "--format=%(objectname) %(objecttype) %(objectsize) %(refname)"
	ro, _, rx := realgit.Run(gd, nil, "for-each-ref", fmtArg)
	mo, mx := model(nil, "for-each-ref", fmtArg)
	sh.C.Validated++
	if !bytes.Equal(ro, mo) || rx != mx {
		herr("for-each-ref differs: real %q (exit %d) model %q (exit %d)", ro, rx, mo, mx)
		return
	}
	// 2. rev-list
	roots := sc.Roots()
	var in bytes.Buffer
	for _, id := range roots {
		fmt.Fprintf(&in, "%s\n", id)
	}
	ro, re, rx := realgit.Run(gd, in.Bytes(), "rev-list", "--objects", "--stdin", "--date-order")
	mo, mx = model(in.Bytes(), "rev-list", "--objects", "--stdin", "--date-order")
	sh.C.Validated++
	if rx != mx {
		herr("rev-list exit differs: real %d (%s) model %d", rx, re, mx)
		return
	}
	realIDs := []mrepo.ID{}
	realSet := map[mrepo.ID]bool{}
	for _, l := range strings.Split(strings.TrimRight(string(ro), "\n"), "\n") {
		if len(l) >= 40 {
			realIDs = append(realIDs, mrepo.ID(l[:40]))
			realSet[mrepo.ID(l[:40])] = true
		}
	}
	orc := oracle.Compute(sc.Repo, roots)
	if len(realSet) != len(orc.Reach) {
		herr("reachable set differs: real git lists %d objects, oracle %d", len(realSet), len(orc.Reach))
		return
	}
	for id := range orc.Reach {
		if !realSet[id] {
			herr("oracle reaches %s which real git does not list", id)
			return
		}
	}
	// real order must be admissible: no commit before all of its listed children
	pos := map[mrepo.ID]int{}
	for i, id := range realIDs {
		pos[id] = i
	}
	for _, id := range realIDs {
		o := sc.Repo.Objects[id]
		if o.Kind == mrepo.Commit {
			for _, p := range o.Parents {
				if pos[p] < pos[id] {
					herr("real git listed parent %s before child %s: the allowed-order model is wrong", p, id)
					return
				}
			}
		}
	}
	if bytes.Equal(ro, mo) {
		sh.C.Add("conformance_revlist_byte_equal", 1)
	} else {
		sh.C.Add("conformance_revlist_same_set_other_order", 1)
	}
	// 3. cat-file --batch-check and --batch on real git's listing
	var ids bytes.Buffer
	var idsNB bytes.Buffer
	for _, id := range realIDs {
		fmt.Fprintf(&ids, "%s\n", id)
		if sc.Repo.Objects[id].Kind != mrepo.Blob {
			fmt.Fprintf(&idsNB, "%s\n", id)
		}
	}
	ids.WriteString("0000000000000000000000000000000000000001\n")
	ro, _, rx = realgit.Run(gd, ids.Bytes(), "cat-file", "--batch-check", "--buffer")
	mo, mx = model(ids.Bytes(), "cat-file", "--batch-check", "--buffer")
	sh.C.Validated++
	if !bytes.Equal(ro, mo) || rx != mx {
		herr("cat-file --batch-check differs: real %q model %q", ro, mo)
		return
	}
	ro, _, rx = realgit.Run(gd, idsNB.Bytes(), "cat-file", "--batch", "--buffer")
	mo, mx = model(idsNB.Bytes(), "cat-file", "--batch", "--buffer")
	sh.C.Validated++
	if !bytes.Equal(ro, mo) || rx != mx {
		herr("cat-file --batch differs (%d vs %d bytes)", len(ro), len(mo))
		return
	}
	// 3b. noise that must not be counted: a reflog entry and an index that
	// reach objects no root reaches (HEAD may already be detached on such a commit)
	{
		var noiseCommit, noiseTree mrepo.ID
		for _, id := range sc.Repo.Order {
			o := sc.Repo.Objects[id]
			if orc.Reach[id] || o.Virtual {
				continue
			}
			if o.Kind == mrepo.Commit && noiseCommit == "" {
				noiseCommit = id
			}
			if o.Kind == mrepo.Tree && noiseTree == "" {
				noiseTree = id
			}
		}
		if noiseCommit != "" {
			os.MkdirAll(filepath.Join(gd, "logs"), 0o755)
			line := fmt.Sprintf("%s %s V Erif <v@example.com> 1000000000 +0000\tcheckout: moving\n", strings.Repeat("0", 40), noiseCommit)
			os.WriteFile(filepath.Join(gd, "logs", "HEAD"), []byte(line), 0o644)
			sh.C.Add("noise_reflog_cases", 1)
		}
		if noiseTree != "" {
			if _, err := realgit.RunPlain(gd, []string{"GIT_DIR=" + gd}, "read-tree", string(noiseTree)); err == nil {
				sh.C.Add("noise_index_cases", 1)
			}
		}
	}
	// 4. the real CLI with real git against the oracle
	args := append([]string{"--json", "--no-progress", "--names=none"}, sizerArgs(sc)...)
	res := cli.Run(gd, "", nil, 60*time.Second, args...)
	sh.C.Validated++
	sh.C.Add("cli_real_runs", 1)
	if res.Exit != 0 || res.TimedOut {
		sh.C.Violate(explore.Violation{Property: prop, Class: "cli-error", Msg: fmt.Sprintf("git-sizer with real git failed (exit %d, timeout %v): %s", res.Exit, res.TimedOut, res.Stderr),
			Case: caseJSON(sh.Index(), map[string]any{"desc": sc.Desc, "args": args}), Detail: sc.Repo.Describe()})
		return
	}
	nums, _, err := parseV1(res.Stdout)
	if err != nil {
		herr("cannot parse CLI JSON: %v", err)
		return
	}
	want := orc.Numbers()
	var diffs []string
	for _, k := range owned {
		if nums[k] != want[k] {
			diffs = append(diffs, fmt.Sprintf("%s: reported %d, true %d", k, nums[k], want[k]))
		}
	}
	if len(diffs) > 0 {
		sh.C.Violate(explore.Violation{Property: prop, Class: "cli-mismatch", Msg: "real CLI with real git: " + strings.Join(diffs, "; "),
			Case: caseJSON(sh.Index(), map[string]any{"desc": sc.Desc, "args": args}), Detail: sc.Repo.Describe()})
	}
	// 5. the real CLI with fakegit must print the same bytes
	fs, err := cli.NewFakeSession(filepath.Join(dir, "fake"), sc.Repo, &modelgit.Plan{GitDir: gd})
	if err == nil {
		res2 := cli.Run(dir, cli.FakeGitDir, fs.Env(), 60*time.Second, args...)
		sh.C.Validated++
		if res2.Exit != res.Exit || !bytes.Equal(res2.Stdout, res.Stdout) {
			herr("CLI output differs between real git and fakegit: exit %d/%d\nreal: %s\nfake: %s\nstderr: %s", res.Exit, res2.Exit, res.Stdout, res2.Stdout, res2.Stderr)
		}
		// 6. the shim's fidelity for planned orders: the real binary (real go-pipe,
		// real exec) with fakegit executing a permuted listing must report the
		// same numbers as the oracle
		if l, err := modelgit.DefaultListing(sc.Repo, roots); err == nil && sh.Index()%2 == 0 {
			fs.SetPlan(&modelgit.Plan{GitDir: gd, ListOrder: reverseNonCommits(sc.Repo, l), Chunk: 13, FlushEvery: 1})
			res3 := cli.Run(dir, cli.FakeGitDir, fs.Env(), 60*time.Second, args...)
			sh.C.Validated++
			sh.C.Add("cli_fakegit_permuted_runs", 1)
			if u := fakeUnmodelled(fs); u != "" {
				herr("the model git does not implement the read-only command %s (extend harness/modelgit)", u)
			} else if res3.Exit != 0 {
				sh.C.Violate(explore.Violation{Property: prop, Class: "cli-error", Msg: fmt.Sprintf("git-sizer with the model git under a permuted listing failed (exit %d): %s", res3.Exit, res3.Stderr),
					Case: caseJSON(sh.Index(), map[string]any{"desc": sc.Desc, "args": args}), Detail: sc.Repo.Describe()})
			} else if n3, _, err := parseV1(res3.Stdout); err == nil {
				var d3 []string
				for _, k := range owned {
					if n3[k] != want[k] {
						d3 = append(d3, fmt.Sprintf("%s: reported %d, true %d", k, n3[k], want[k]))
					}
				}
				if len(d3) > 0 {
					sh.C.Violate(explore.Violation{Property: prop, Class: "cli-mismatch", Msg: "real CLI with the model git under a permuted listing: " + strings.Join(d3, "; "),
						Case: caseJSON(sh.Index(), map[string]any{"desc": sc.Desc, "args": args}), Detail: sc.Repo.Describe()})
				}
			}
		}
	}
}
