package checks

import (
	"bytes"
	"encoding/hex"
	"fmt"
	"strings"
	"time"

	"github.com/github/git-sizer/git"
	"github.com/github/git-sizer/sizes"

	"verif/explore"
	"verif/gen"
	"verif/inproc"
	"verif/modelgit"
	"verif/mrepo"
)

type refEntry struct {
	mode uint64
	name string
	id   string // 20 raw bytes
}

// refParseTree is the reference tree parser: entries "<octal mode> <name>\0<20 bytes>".
func refParseTree(data []byte) ([]refEntry, bool) {
	var out []refEntry
	for len(data) > 0 {
		sp := bytes.IndexByte(data, ' ')
		if sp <= 0 {
			return out, false
		}
		var mode uint64
		for _, c := range data[:sp] {
			if c < '0' || c > '7' {
				return out, false
			}
			mode = mode*8 + uint64(c-'0')
			if mode > 0xffffffff {
				return out, false
			}
		}
		data = data[sp+1:]
		nul := bytes.IndexByte(data, 0)
		if nul < 0 {
			return out, false
		}
		name := string(data[:nul])
		data = data[nul+1:]
		if len(data) < 20 {
			return out, false
		}
		out = append(out, refEntry{mode, name, string(data[:20])})
		data = data[20:]
	}
	return out, true
}

func isHex40(s string) bool {
	if len(s) != 40 {
		return false
	}
	_, err := hex.DecodeString(s)
	return err == nil && strings.ToLower(s) == s || err == nil
}

// refHeaders is the reference header-block reader: the block ends at the first
// blank line; continuation lines (leading SP) belong to the previous header;
// key = text before the first SP. ok=false if a header line is malformed.
func refHeaders(data []byte) (kv [][2]string, ok bool) {
	block := data
	if i := bytes.Index(data, []byte("\n\n")); i >= 0 {
		block = data[:i+1]
	} else if len(data) == 0 || data[len(data)-1] != '\n' {
		return nil, false
	}
	for len(block) > 0 {
		nl := bytes.IndexByte(block, '\n')
		if nl < 0 {
			return nil, false
		}
		line := string(block[:nl])
		block = block[nl+1:]
		if strings.HasPrefix(line, " ") {
			continue
		}
		sp := strings.IndexByte(line, ' ')
		if sp < 0 {
			return nil, false
		}
		kv = append(kv, [2]string{line[:sp], line[sp+1:]})
	}
	return kv, true
}

func refParseCommit(data []byte) (tree string, parents []string, ok bool) {
	kv, ok := refHeaders(data)
	if !ok {
		return "", nil, false
	}
	nt := 0
	for _, h := range kv {
		switch h[0] {
		case "tree":
			if !isHex40(h[1]) {
				return "", nil, false
			}
			tree = h[1]
			nt++
		case "parent":
			if !isHex40(h[1]) {
				return "", nil, false
			}
			parents = append(parents, h[1])
		}
	}
	return tree, parents, nt == 1
}

func refParseTag(data []byte) (object, typ string, ok bool) {
	kv, ok := refHeaders(data)
	if !ok {
		return "", "", false
	}
	no, nt := 0, 0
	for _, h := range kv {
		switch h[0] {
		case "object":
			if !isHex40(h[1]) {
				return "", "", false
			}
			object = h[1]
			no++
		case "type":
			typ = h[1]
			nt++
		}
	}
	return object, typ, no == 1 && nt == 1
}

var hexA = strings.Repeat("a1", 20)
var hexB = strings.Repeat("b2", 20)

func c16CheckTree(sh *explore.Shard, data []byte, what string) {
	sh.C.Evals++
	mk := func(class, msg string) {
		sh.C.Violate(explore.Violation{Property: "C16", Class: class, Msg: fmt.Sprintf("tree parser on %s %q: %s", what, data, msg), Case: caseJSON(sh.Index(), map[string]any{"input": hex.EncodeToString(data)})})
	}
	var got []refEntry
	var gerr error
	func() {
		defer func() {
			if r := recover(); r != nil {
				mk("panic", fmt.Sprint(r))
				gerr = fmt.Errorf("panic")
			}
		}()
		var oid git.OID
		t, err := git.ParseTree(oid, data)
		if err != nil {
			gerr = err
			return
		}
		it := t.Iter()
		for n := 0; ; n++ {
			if n > len(data)+1 {
				mk("loop", "iterator does not terminate")
				gerr = fmt.Errorf("loop")
				return
			}
			e, ok, err := it.NextEntry()
			if err != nil {
				gerr = err
				return
			}
			if !ok {
				return
			}
			got = append(got, refEntry{uint64(e.Filemode), e.Name, string(e.OID.Bytes())})
		}
	}()
	for _, e := range got {
		if !bytes.Contains(data, []byte(e.name+"\x00"+e.id)) {
			mk("outside-input", fmt.Sprintf("entry %q is not a substring of the input", e.name))
		}
	}
	want, ok := refParseTree(data)
	if ok {
		if gerr != nil {
			mk("rejects-wellformed", "well-formed tree rejected: "+gerr.Error())
		} else if fmt.Sprint(got) != fmt.Sprint(want) {
			mk("lossy", fmt.Sprintf("entries %v, expected %v", got, want))
		} else {
			// re-serialise
			var b bytes.Buffer
			for _, e := range got {
				fmt.Fprintf(&b, "%o %s\x00%s", e.mode, e.name, e.id)
			}
			canonical := true
			for _, e := range want {
				_ = e
			}
			if canonical && what == "generated" && !bytes.Equal(b.Bytes(), data) {
				mk("lossy", "re-serialised entries differ from the object")
			}
		}
		sh.C.Outcome(fmt.Sprintf("tree-ok-%d", len(want)))
	} else {
		if gerr == nil {
			sh.C.Outcome("tree-accepted-though-malformed")
		} else {
			sh.C.Outcome("tree-err")
		}
	}
}

func c16CheckCommit(sh *explore.Shard, data []byte, what string) {
	sh.C.Evals++
	mk := func(class, msg string) {
		sh.C.Violate(explore.Violation{Property: "C16", Class: class, Msg: fmt.Sprintf("commit parser on %s %q: %s", what, data, msg), Case: caseJSON(sh.Index(), map[string]any{"input": hex.EncodeToString(data)})})
	}
	var c *git.Commit
	var err error
	func() {
		defer func() {
			if r := recover(); r != nil {
				mk("panic", fmt.Sprint(r))
				err = fmt.Errorf("panic")
			}
		}()
		var oid git.OID
		c, err = git.ParseCommit(oid, data)
	}()
	tree, parents, ok := refParseCommit(data)
	if !ok {
		sh.C.Outcome("commit-malformed")
		return
	}
	if err != nil {
		mk("rejects-wellformed", "well-formed commit rejected: "+err.Error())
		return
	}
	var gp []string
	for _, p := range c.Parents {
		gp = append(gp, p.String())
	}
	if c.Tree.String() != strings.ToLower(tree) || strings.ToLower(strings.Join(gp, ",")) != strings.ToLower(strings.Join(parents, ",")) {
		mk("lossy", fmt.Sprintf("tree %s parents %v, expected tree %s parents %v", c.Tree, gp, tree, parents))
	}
	if uint64(c.Size) != uint64(len(data)) {
		mk("lossy", fmt.Sprintf("size %d, object has %d bytes", c.Size, len(data)))
	}
	sh.C.Outcome(fmt.Sprintf("commit-ok-%d", len(parents)))
}

func c16CheckTag(sh *explore.Shard, data []byte, what string) {
	sh.C.Evals++
	mk := func(class, msg string) {
		sh.C.Violate(explore.Violation{Property: "C16", Class: class, Msg: fmt.Sprintf("tag parser on %s %q: %s", what, data, msg), Case: caseJSON(sh.Index(), map[string]any{"input": hex.EncodeToString(data)})})
	}
	var t *git.Tag
	var err error
	func() {
		defer func() {
			if r := recover(); r != nil {
				mk("panic", fmt.Sprint(r))
				err = fmt.Errorf("panic")
			}
		}()
		var oid git.OID
		t, err = git.ParseTag(oid, data)
	}()
	object, typ, ok := refParseTag(data)
	if !ok {
		sh.C.Outcome("tag-malformed")
		return
	}
	if err != nil {
		mk("rejects-wellformed", "well-formed tag rejected: "+err.Error())
		return
	}
	if t.Referent.String() != strings.ToLower(object) || string(t.ReferentType) != typ {
		mk("lossy", fmt.Sprintf("object %s type %s, expected %s %s", t.Referent, t.ReferentType, object, typ))
	}
	sh.C.Outcome("tag-ok-" + typ)
}

func tokenStrings(tokens []string, maxLen int, sh *explore.Shard, idx *int64, f func(s []byte)) {
	// enumerate by (length, first two tokens) blocks so that sharding is coarse
	var rec func(cur []byte, depth int)
	rec = func(cur []byte, depth int) {
		f(cur)
		if depth == maxLen {
			return
		}
		for _, t := range tokens {
			rec(append(append([]byte(nil), cur...), t...), depth+1)
		}
	}
	for _, a := range tokens {
		for _, b := range tokens {
			*idx++
			if !sh.Mine(*idx) {
				continue
			}
			if sh.Expired() {
				return
			}
			rec([]byte(a+b), 2)
			sh.C.Nontrivial++
		}
	}
	*idx++
	if sh.Mine(*idx) {
		f(nil)
		for _, a := range tokens {
			f([]byte(a))
		}
	}
}

func c16Worker(sh *explore.Shard) {
	var idx int64
	maxLen := 6
	if sh.Tier == "thorough" {
		maxLen = 7
	}
	raw20 := string(bytes.Repeat([]byte{0xab}, 20))
	raw19 := string(bytes.Repeat([]byte{0xcd}, 19))
	// (a) totality on token strings
	tokenStrings([]string{"100644", "40000", "9", "x", " ", "\x00", raw20, raw19, "\n"}, maxLen, sh, &idx, func(s []byte) { c16CheckTree(sh, s, "token string") })
	hdrTokens := []string{"tree ", "parent ", "object ", "type ", hexA, hexA[:39], "\n", " ", "x", "gpgsig ", "tag", "commit"}
	tokenStrings(hdrTokens, maxLen, sh, &idx, func(s []byte) {
		c16CheckCommit(sh, s, "token string")
		c16CheckTag(sh, s, "token string")
	})
	// (b) losslessness on generated well-formed objects
	idx++
	if sh.Mine(idx) {
		id20 := string(bytes.Repeat([]byte{0x11}, 20))
		for _, mode := range []string{"100644", "100755", "120000", "160000", "40000", "100664"} {
			for b := 1; b < 256; b++ {
				if b == '/' {
					continue
				}
				for _, shape := range []string{"%c", "a%c", "%cb", "a%cb %c"} {
					name := fmt.Sprintf(strings.ReplaceAll(shape, "%c", "%s"), repeatArgs(string([]byte{byte(b)}), strings.Count(shape, "%c"))...)
					data := []byte(mode + " " + name + "\x00" + id20 + "100644 second\x00" + raw20)
					c16CheckTree(sh, data, "generated")
				}
			}
		}
		sh.C.Sample(1, map[string]any{"part": "well-formed trees", "names": "every non-NUL byte except '/' in four positions x six modes"})
	}
	idx++
	if sh.Mine(idx) {
		extras := []string{"",
			"gpgsig -----BEGIN PGP SIGNATURE-----\n parent " + hexB + "\n tree " + hexB + "\n \n -----END PGP SIGNATURE-----\n",
			"mergetag object " + hexB + "\n type commit\n tag v1\n tagger T <t@x> 1 +0000\n \n parent " + hexB + "\n tree layout changed\n parent directory renamed\n",
			"encoding ISO-8859-1\n", "x-unknown some value\n", "gpgsig \n \n"}
		msgs := []string{"", "msg\n", "tree " + hexB + "\nparent " + hexB + "\n", "\n\nparent x\ntree y\n", "no trailing newline"}
		r := mrepo.New()
		n := 0
		for np := 0; np <= 3; np++ {
			for _, e1 := range extras {
				for _, e2 := range extras {
					for _, msg := range msgs {
						for _, noBlank := range []bool{false, true} {
							if noBlank && msg != "" {
								continue
							}
							var ps []mrepo.ID
							for p := 0; p < np; p++ {
								ps = append(ps, mrepo.ID(strings.Repeat(fmt.Sprintf("%x", p+1), 40)))
							}
							id := r.AddCommit(mrepo.CommitSpec{Tree: mrepo.ID(hexA), Parents: ps, Time: 1, Message: msg, NoBlank: noBlank, Extra: e1 + e2})
							c16CheckCommit(sh, r.Objects[id].Body, "generated")
							n++
						}
					}
				}
			}
		}
		// header order: git's own readers look headers up by name, and objects
		// written by other tools carry them in other orders: every permutation of
		// {tree, parent, parent, author, committer, gpgsig block} and of
		// {object, type, tag, tagger}
		p1, p2 := strings.Repeat("1", 40), strings.Repeat("2", 40)
		clines := []string{"tree " + hexA + "\n", "parent " + p1 + "\n", "parent " + p2 + "\n", "author A <a@x> 1 +0000\n", "committer C <c@x> 1 +0000\n",
			"gpgsig -----BEGIN-----\n parent " + hexB + "\n tree " + hexB + "\n -----END-----\n"}
		explore.Perm(len(clines), func(pm []int) bool {
			var b strings.Builder
			for _, i := range pm {
				b.WriteString(clines[i])
			}
			c16CheckCommit(sh, []byte(b.String()+"\nmessage\n"), "header order")
			n++
			return true
		})
		// object ids written with upper-case hex digits (git reads them, fsck accepts them)
		up := strings.ToUpper
		c16CheckCommit(sh, []byte("tree "+up(hexA)+"\nparent "+up(hexB)+"\nparent "+hexB[:20]+up(hexB[20:])+"\nauthor A <a@x> 1 +0000\ncommitter C <c@x> 1 +0000\n\nmessage\n"), "upper-case ids")
		c16CheckTag(sh, []byte("object "+up(hexA)+"\ntype commit\ntag v1\ntagger T <t@x> 1 +0000\n\nmessage\n"), "upper-case ids")
		n += 2
		tlines := []string{"object " + hexA + "\n", "type commit\n", "tag v1\n", "tagger T <t@x> 1 +0000\n"}
		explore.Perm(len(tlines), func(pm []int) bool {
			var b strings.Builder
			for _, i := range pm {
				b.WriteString(tlines[i])
			}
			c16CheckTag(sh, []byte(b.String()+"\nmessage\n"), "header order")
			c16CheckTag(sh, []byte(b.String()), "header order, no message")
			n += 2
			return true
		})
		// tags
		tgt := r.AddBlob([]byte("x"))
		for _, e1 := range extras {
			for _, msg := range []string{"", "m\n", "object " + hexB + "\ntype tree\n"} {
				for _, noBlank := range []bool{false, true} {
					if noBlank && msg != "" {
						continue
					}
					id := r.AddTag(mrepo.TagSpec{Target: tgt, Name: "t", Time: 1, Message: msg, NoBlank: noBlank, Extra: e1})
					c16CheckTag(sh, r.Objects[id].Body, "generated")
					n++
				}
			}
		}
		sh.C.Sample(2, map[string]any{"part": "well-formed commits and tags", "objects": n, "what": "0..3 parents x pairs of extra header blocks (gpgsig/mergetag with tree/parent look-alike continuation lines, encoding, unknown) x messages imitating headers / no message"})
		sh.C.Nontrivial += int64(n)
	}
	// (c) listings: every byte prefix of every line, and every truncation of the
	// real streams as the production readers deliver them
	r, _ := c08Repo()
	env0 := modelgit.NewEnv(r, &modelgit.Plan{})
	var feo bytes.Buffer
	env0.Run([]string{"--no-replace-objects", "-c", "advice.graftFileDeprecated=false", "for-each-ref", "--format=%(objectname) %(objecttype) %(objectsize) %(refname)"}, nil, nil, &feo, 0)
	idx++
	if sh.Mine(idx) {
		for _, line := range strings.Split(strings.TrimRight(feo.String(), "\n"), "\n") {
			for k := 0; k <= len(line); k++ {
				sh.C.Evals++
				func() {
					defer func() {
						if rec := recover(); rec != nil {
							sh.C.Violate(explore.Violation{Property: "C16", Class: "panic", Msg: fmt.Sprintf("ParseReference(%q) panicked: %v", line[:k], rec), Case: caseJSON(idx, nil)})
						}
					}()
					ref, err := git.ParseReference(line[:k])
					if err == nil && k == len(line) {
						if ref.Refname != line[strings.LastIndexByte(line, ' ')+1:] {
							sh.C.Violate(explore.Violation{Property: "C16", Class: "lossy", Msg: fmt.Sprintf("ParseReference(%q) name %q", line, ref.Refname), Case: caseJSON(idx, nil)})
						}
					}
				}()
			}
		}
		sh.C.Nontrivial++
	}
	// truncation of the streams inside the real pipelines (in-process): the scan must end with a result or an error
	install()
	sc := &gen.Scenario{Repo: r}
	probe := inproc.Scan(modelgit.NewEnv(r, &modelgit.Plan{}), inproc.SimpleGrouper{Walk: sc.Walks}, nil, sizes.NameStyleNone, nil)
	for _, inv := range probe.Log {
		if inv.Kind != modelgit.KForEachRef && inv.Kind != modelgit.KBatchCheck && inv.Kind != modelgit.KBatch && inv.Kind != modelgit.KRevList {
			continue
		}
		step := 1
		if sh.Tier != "thorough" && inv.OutLen > 600 {
			step = 3
		}
		for k := 0; k < inv.OutLen; k += step {
			for _, exit := range []int{1, 128} {
				idx++
				if !sh.Mine(idx) || sh.Expired() {
					continue
				}
				plan := &modelgit.Plan{Faults: []modelgit.Fault{{Kind: inv.Kind, Nth: 0, StdoutBytes: k, StdinLines: -1, Exit: exit}}}
				res := inproc.Scan(modelgit.NewEnv(r, plan), inproc.SimpleGrouper{Walk: sc.Walks}, nil, sizes.NameStyleNone, nil)
				sh.C.Evals++
				sh.C.Nontrivial++
				if res.Hang {
					sh.C.Violate(explore.Violation{Property: "C16", Class: "hang", Msg: fmt.Sprintf("%s output cut after %d bytes (exit %d): %v", inv.Kind, k, exit, res.Err),
						Case: caseJSON(sh.Index(), map[string]any{"kind": inv.Kind, "bytes": k, "exit": exit})})
					return // the abandoned goroutines may disturb later scans of this worker
				}
				if res.Panic != nil {
					sh.C.Violate(explore.Violation{Property: "C16", Class: "panic", Msg: fmt.Sprintf("%s output cut after %d bytes (exit %d): scan panicked: %v", inv.Kind, k, exit, res.Panic),
						Case: caseJSON(sh.Index(), map[string]any{"kind": inv.Kind, "bytes": k, "exit": exit}), Detail: res.Stack})
				}
				if res.Err != nil {
					sh.C.Outcome("truncation-error")
				} else {
					sh.C.Outcome("truncation-result")
				}
			}
		}
	}
}

func repeatArgs(s string, n int) []any {
	out := make([]any, n)
	for i := range out {
		out[i] = s
	}
	return out
}

func init() {
	Registry["C16"] = &Check{Level: "exploration", Worker: c16Worker, QuickBudget: 70 * time.Second, ThoroughBudget: 10 * time.Minute,
		Rule:        "(a) totality: all strings of <=6 (quick) / <=7 (thorough) tokens over a 9-token tree alphabet (valid/invalid modes, SP, NUL, 20 and 19 raw bytes, LF) and a 12-token header alphabet (tree/parent/object/type keys, 40- and 39-hex ids, LF, SP continuation, gpgsig) fed to ParseTree+TreeIter, ParseCommit and ParseTag under a recover/iteration watchdog, compared with reference parsers (must accept what the reference accepts with identical entries/headers; every returned entry must be a substring of the input); (b) losslessness: generated well-formed trees (every non-NUL byte except '/' in four name positions x six modes, re-serialisation must reproduce the object) and commits/tags (0..3 parents x pairs of gpgsig/mergetag/encoding/unknown header blocks with tree/parent look-alike continuation lines x messages imitating headers x no message; every order of the header lines of a 2-parent signed commit (720) and of a tag (24); object ids in upper-case hex); (c) listings: every byte prefix of every for-each-ref line through ParseReference, and every truncation point of the for-each-ref / rev-list / cat-file --batch-check / --batch streams inside the real in-process pipelines (exit status 1 and 128): the scan must end with a result or an error, never a panic (a panic in a pipeline goroutine kills the worker and is reported as a crash). non-trivial = token-string blocks, generated objects and truncation points",
		Assumptions: []string{"bounded-exhaustive over a token alphabet, not coverage-guided fuzzing over all bytes (no fuzzing engine decides anything here); bytes outside the alphabets are represented by the 'x' token and by the all-bytes name generator"}}
}
