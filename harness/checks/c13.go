package checks

import (
	"bytes"
	"fmt"
	"os"
	"os/exec"
	"path/filepath"
	"strings"
	"time"

	"verif/cli"
	"verif/explore"
	"verif/gen"
	"verif/modelgit"
	"verif/mrepo"
	"verif/oracle"
	"verif/realgit"
)

type c13Base struct {
	repo *mrepo.Repo
	ids  map[string]mrepo.ID
}

func c13Bases() []c13Base {
	var out []c13Base
	for v := 0; v < 2; v++ {
		r := mrepo.New()
		lv := gen.AddLeaves(r)
		sub := r.AddTree([]mrepo.Entry{{Mode: 0o100644, Name: "a", Child: lv.BlobA}})
		t0 := r.AddTree([]mrepo.Entry{{Mode: 0o40000, Name: "d", Child: sub}, {Mode: 0o100644, Name: "x", Child: lv.BlobB}})
		t1 := r.AddTree([]mrepo.Entry{{Mode: 0o40000, Name: "d", Child: sub}, {Mode: 0o100644, Name: "x", Child: lv.BlobA}, {Mode: 0o100644, Name: "y", Child: lv.BlobB}})
		c0 := r.AddCommit(mrepo.CommitSpec{Tree: t0, Time: gen.T0, Message: "c0\n"})
		c1 := r.AddCommit(mrepo.CommitSpec{Tree: t1, Parents: []mrepo.ID{c0}, Time: gen.T0 + 100, Message: "c1\n"})
		tip := c1
		if v == 1 {
			side := r.AddCommit(mrepo.CommitSpec{Tree: t0, Parents: []mrepo.ID{c0}, Time: gen.T0 + 150, Message: "side\n"})
			tip = r.AddCommit(mrepo.CommitSpec{Tree: t1, Parents: []mrepo.ID{c1, side}, Time: gen.T0 + 200, Message: "merge\n"})
		}
		ta := r.AddTag(mrepo.TagSpec{Target: tip, Name: "ta", Time: gen.T0, Message: "ta\n"})
		// objects that exist only as replacement/graft material (unreachable unless something redirects to them)
		bigBlob := r.AddBlob(make([]byte, 5000))
		bigTree := r.AddTree([]mrepo.Entry{{Mode: 0o100644, Name: "big", Child: bigBlob}, {Mode: 0o100644, Name: "x", Child: lv.BlobC}})
		orphan := r.AddCommit(mrepo.CommitSpec{Tree: bigTree, Time: gen.T0 + 50, Message: "orphan with other tree and no parents\n"})
		otherTag := r.AddTag(mrepo.TagSpec{Target: orphan, Name: "other", Time: gen.T0, Message: "other\n"})
		r.SetRef("refs/heads/main", tip)
		r.SetRef("refs/tags/ta", ta)
		r.Head = "ref: refs/heads/main"
		out = append(out, c13Base{r, map[string]mrepo.ID{"c0": c0, "c1": c1, "tip": tip, "t1": t1, "sub": sub, "blobB": lv.BlobB, "blobA": lv.BlobA, "t0": t0, "ta": ta,
			"bigBlob": bigBlob, "bigTree": bigTree, "orphan": orphan, "otherTag": otherTag}})
	}
	return out
}

type c13Variant struct {
	name    string
	replace [][2]mrepo.ID // refs/replace/<a> -> b
	grafts  []string      // lines of .git/info/grafts
	envGraf []string      // lines of a graft file named by GIT_GRAFT_FILE in the caller's environment
	noRepl  bool          // GIT_NO_REPLACE_OBJECTS=1 in the caller's environment
	shallow mrepo.ID      // content of .git/shallow ("" = none)
	// wtRef: a per-worktree reference (refs/worktree/only) created in the linked
	// worktree; only runs addressed through that worktree see it
	wtRef mrepo.ID
	// config: text appended to the repository's configuration file
	config string
}

func c13Variants(b c13Base, tier string) []c13Variant {
	id := b.ids
	vs := []c13Variant{{name: "plain"}}
	if tier == "thorough" {
		// every reachable object replaced in turn by the spare object of its kind
		spare := map[mrepo.Kind]mrepo.ID{mrepo.Commit: id["orphan"], mrepo.Tree: id["bigTree"], mrepo.Blob: id["bigBlob"], mrepo.Tag: id["otherTag"]}
		reach := oracle.Compute(b.repo, (&gen.Scenario{Repo: b.repo}).Roots()).Reach
		for _, oid := range b.repo.Order {
			if reach[oid] {
				k := b.repo.Objects[oid].Kind
				vs = append(vs, c13Variant{name: fmt.Sprintf("replace every object in turn: %s %s", k, oid.Short()), replace: [][2]mrepo.ID{{oid, spare[k]}}})
			}
		}
		// every commit grafted in turn onto the orphan, and cut off from its parents
		for _, oid := range b.repo.Order {
			if reach[oid] && b.repo.Objects[oid].Kind == mrepo.Commit {
				vs = append(vs, c13Variant{name: "graft every commit in turn: redirect " + oid.Short(), grafts: []string{fmt.Sprintf("%s %s", oid, id["orphan"])}})
				vs = append(vs, c13Variant{name: "graft every commit in turn (environment): cut " + oid.Short(), envGraf: []string{string(oid)}})
			}
		}
	}
	for _, rp := range [][3]string{{"commit other parents+tree", "c1", "orphan"}, {"commit tip", "tip", "orphan"}, {"tree bigger", "t1", "bigTree"},
		{"subtree", "sub", "bigTree"}, {"blob bigger", "blobB", "bigBlob"}, {"tag other", "ta", "otherTag"},
		// replacements that are reachable in their own right (refs/replace/* then
		// names an object the walk meets a second time)
		{"blob by a reachable blob", "blobB", "blobA"}, {"tree by a reachable tree", "t1", "t0"}, {"commit by its ancestor", "c1", "c0"}} {
		vs = append(vs, c13Variant{name: "replace " + rp[0], replace: [][2]mrepo.ID{{id[rp[1]], id[rp[2]]}}})
		vs = append(vs, c13Variant{name: "replace " + rp[0] + " +GIT_NO_REPLACE_OBJECTS", replace: [][2]mrepo.ID{{id[rp[1]], id[rp[2]]}}, noRepl: true})
	}
	graftLines := map[string]string{
		"add parent":       fmt.Sprintf("%s %s %s", id["c1"], id["c0"], id["orphan"]),
		"drop parents":     string(id["c1"]),
		"redirect":         fmt.Sprintf("%s %s", id["c1"], id["orphan"]),
		"root gets parent": fmt.Sprintf("%s %s", id["c0"], id["orphan"]),
	}
	for _, k := range []string{"add parent", "drop parents", "redirect", "root gets parent"} {
		vs = append(vs, c13Variant{name: "graft file: " + k, grafts: []string{graftLines[k]}})
		vs = append(vs, c13Variant{name: "GIT_GRAFT_FILE in environment: " + k, envGraf: []string{graftLines[k]}})
	}
	if tier == "thorough" {
		// two redirections at once: every replacement x every graft (repository file and caller's environment)
		for _, rp := range [][3]string{{"commit other parents+tree", "c1", "orphan"}, {"tree bigger", "t1", "bigTree"}, {"blob bigger", "blobB", "bigBlob"}, {"tag other", "ta", "otherTag"}, {"blob by a reachable blob", "blobB", "blobA"}} {
			for _, k := range []string{"add parent", "drop parents", "redirect", "root gets parent"} {
				vs = append(vs, c13Variant{name: "replace " + rp[0] + " + graft file: " + k, replace: [][2]mrepo.ID{{id[rp[1]], id[rp[2]]}}, grafts: []string{graftLines[k]}})
				vs = append(vs, c13Variant{name: "replace " + rp[0] + " + GIT_GRAFT_FILE in environment: " + k, replace: [][2]mrepo.ID{{id[rp[1]], id[rp[2]]}}, envGraf: []string{graftLines[k]}})
			}
		}
	}
	// replacement switched on explicitly in the repository's own configuration
	// (git lets core.useReplaceRefs=true override --no-replace-objects)
	for _, rp := range [][3]string{{"commit other parents+tree", "c1", "orphan"}, {"blob bigger", "blobB", "bigBlob"}, {"tree bigger", "t1", "bigTree"}} {
		vs = append(vs, c13Variant{name: "replace " + rp[0] + " + core.useReplaceRefs=true in the repository configuration", replace: [][2]mrepo.ID{{id[rp[1]], id[rp[2]]}},
			config: "[core]\n\tuseReplaceRefs = true\n"})
	}
	vs = append(vs, c13Variant{name: "shallow", shallow: id["c1"]})
	vs = append(vs, c13Variant{name: "per-worktree reference in the linked worktree", wtRef: id["orphan"]})
	return vs
}

type c13Mode struct {
	name string
	run  func(work, wt2, bare, elsewhere string, env []string, args []string) cli.Result
}

func runTool(dir string, env []string, argv0 string, args ...string) cli.Result {
	cmd := exec.Command(argv0, args...)
	cmd.Dir = dir
	e := realgit.CleanEnv("/nonexistent-home")
	e[0] = "PATH=/verif/.build:/usr/bin:/bin"
	cmd.Env = append(e, env...)
	var o, eb bytes.Buffer
	cmd.Stdout, cmd.Stderr = &o, &eb
	err := cmd.Run()
	res := cli.Result{Stdout: o.Bytes(), Stderr: eb.Bytes()}
	if err != nil {
		if ee, ok := err.(*exec.ExitError); ok {
			res.Exit = ee.ExitCode()
		} else {
			res.Exit = -1
		}
	}
	return res
}

func c13Modes() []c13Mode {
	sizer := func(dir string, env []string, args []string) cli.Result {
		return cli.Run(dir, "", env, 60*time.Second, args...)
	}
	return []c13Mode{
		{"top of the work tree", func(w, wt2, bare, el string, env, a []string) cli.Result { return sizer(w, env, a) }},
		{"subdirectory", func(w, wt2, bare, el string, env, a []string) cli.Result { return sizer(filepath.Join(w, "d"), env, a) }},
		{"inside .git", func(w, wt2, bare, el string, env, a []string) cli.Result {
			return sizer(filepath.Join(w, ".git"), env, a)
		}},
		{"bare copy", func(w, wt2, bare, el string, env, a []string) cli.Result { return sizer(bare, env, a) }},
		{"linked worktree", func(w, wt2, bare, el string, env, a []string) cli.Result { return sizer(wt2, env, a) }},
		{"GIT_DIR absolute, unrelated cwd", func(w, wt2, bare, el string, env, a []string) cli.Result {
			return sizer(el, append(env, "GIT_DIR="+filepath.Join(w, ".git")), a)
		}},
		{"GIT_DIR relative", func(w, wt2, bare, el string, env, a []string) cli.Result {
			return sizer(filepath.Dir(w), append(env, "GIT_DIR="+filepath.Base(w)+"/.git"), a)
		}},
		// the current directory is reached through a symbolic link (<dir>/link ->
		// <work>/d, PWD holds the logical path): git resolves ../.git physically
		{"GIT_DIR relative with .. through a symlinked cwd", func(w, wt2, bare, el string, env, a []string) cli.Result {
			link := filepath.Join(filepath.Dir(w), "link")
			if _, err := os.Lstat(link); err != nil {
				os.Symlink(filepath.Join(w, "d"), link) // (C17 reuses the modes with its own directories)
			}
			return sizer(link, append(env, "GIT_DIR=../.git", "PWD="+link), a)
		}},
		{"git -C <dir> sizer", func(w, wt2, bare, el string, env, a []string) cli.Result {
			return runTool(el, env, realgit.GitBin, append([]string{"-C", w, "sizer"}, a...)...)
		}},
		{"git --git-dir=<dir> sizer", func(w, wt2, bare, el string, env, a []string) cli.Result {
			return runTool(el, env, realgit.GitBin, append([]string{"--git-dir=" + filepath.Join(w, ".git"), "sizer"}, a...)...)
		}},
	}
}

func c13Worker(sh *explore.Shard) {
	bases := c13Bases()
	modes := c13Modes()
	var idx int64
	for bi, b := range bases {
		if sh.Tier != "thorough" && bi > 0 && false {
			continue
		}
		for _, v := range c13Variants(b, sh.Tier) {
			idx++
			if !sh.Mine(idx) || sh.Expired() {
				continue
			}
			c13Case(sh, bi, b, v, modes)
		}
	}
	// every git command of a run must carry the isolation flags, whatever the caller's environment says
	idx++
	if sh.Mine(idx) {
		b := bases[0]
		dir := scratch("c13f")
		defer os.RemoveAll(dir)
		fs, err := cli.NewFakeSession(filepath.Join(dir, "fake"), b.repo, &modelgit.Plan{GitDir: "/some/where/.git"})
		if err == nil {
			env := append(fs.Env(), "GIT_GRAFT_FILE=/tmp/caller-grafts", "GIT_DIR=/caller/git/dir")
			res := cli.Run(dir, cli.FakeGitDir, env, 60*time.Second, "--json", "--no-progress", "main")
			sh.C.Evals++
			log := fs.Log()
			if res.Exit != 0 || len(log) < 5 {
				sh.C.Violate(explore.Violation{Property: "C13", Class: "HARNESS/fakegit", Msg: fmt.Sprintf("fakegit run failed: exit %d, %d invocations, stderr %s", res.Exit, len(log), res.Stderr), Case: caseJSON(idx, nil)})
			}
			for _, inv := range log {
				sh.C.Validated++
				if inv.Kind == modelgit.KRevParseGitDir {
					continue
				}
				if inv.Kind == modelgit.KRevParseFacts {
					continue // repository discovery/facts: runs in the caller's environment, reads no object
				}
				if inv.Kind == modelgit.KUnexpected && modelgit.LooksReadOnly(inv.Args) {
					// the model git has to learn this command; its isolation is still judged below
					sh.C.Violate(explore.Violation{Property: "C13", Class: "HARNESS/unmodelled-git-command", Msg: fmt.Sprintf("the model git does not implement the read-only command %q (extend harness/modelgit)", inv.Args), Case: caseJSON(idx, nil)})
				}
				if !inv.NoRepl || inv.Graft != "/dev/null" || inv.GitDir != "/some/where/.git" {
					sh.C.Violate(explore.Violation{Property: "C13", Class: "isolation",
						Msg:  fmt.Sprintf("%s ran with --no-replace-objects=%v GIT_GRAFT_FILE=%q GIT_DIR=%q (expected true, /dev/null, the resolved git dir)", inv.Kind, inv.NoRepl, inv.Graft, inv.GitDir),
						Case: caseJSON(idx, nil)})
				}
			}
			sh.C.Nontrivial++
		}
	}
}

func c13Case(sh *explore.Shard, bi int, b c13Base, v c13Variant, modes []c13Mode) {
	dir0 := scratch("c13")
	defer os.RemoveAll(dir0)
	// every path of the case contains a blank (a git dir is a path like any other)
	dir := filepath.Join(dir0, "a b")
	os.MkdirAll(dir, 0o755)
	work := filepath.Join(dir, "work")
	gd := filepath.Join(work, ".git")
	desc := fmt.Sprintf("base %d, %s", bi, v.name)
	herr := func(msg string) {
		sh.C.Violate(explore.Violation{Property: "C13", Class: "HARNESS/setup", Msg: msg + " [" + desc + "]", Case: caseJSON(sh.Index(), map[string]any{"desc": desc})})
	}
	// the stored repository: the model plus refs/replace/* as ordinary references
	stored := *b.repo
	stored.Refs = append([]mrepo.Ref(nil), b.repo.Refs...)
	for _, rp := range v.replace {
		stored.SetRef("refs/replace/"+string(rp[0]), rp[1])
	}
	if err := realgit.Materialise(&stored, gd); err != nil {
		herr(err.Error())
		return
	}
	// non-bare with a populated work tree and index
	cfg, _ := os.ReadFile(filepath.Join(gd, "config"))
	os.WriteFile(filepath.Join(gd, "config"), bytes.Replace(cfg, []byte("bare = true"), []byte("bare = false"), 1), 0o644)
	if out, err := realgit.RunPlain(work, []string{"GIT_NO_REPLACE_OBJECTS=1"}, "reset", "--hard", "-q"); err != nil {
		herr("git reset --hard: " + string(out))
		return
	}
	wt2 := filepath.Join(dir, "wt2")
	if out, err := realgit.RunPlain(work, []string{"GIT_NO_REPLACE_OBJECTS=1"}, "worktree", "add", "-q", "--detach", wt2, string(b.ids["c0"])); err != nil {
		herr("git worktree add: " + string(out))
		return
	}
	if v.wtRef != "" {
		if out, err := realgit.RunPlain(wt2, []string{"GIT_NO_REPLACE_OBJECTS=1"}, "update-ref", "refs/worktree/only", string(v.wtRef)); err != nil {
			herr("git update-ref refs/worktree/only: " + string(out))
			return
		}
	}
	if len(v.grafts) > 0 {
		os.MkdirAll(filepath.Join(gd, "info"), 0o755)
		os.WriteFile(filepath.Join(gd, "info", "grafts"), []byte(strings.Join(v.grafts, "\n")+"\n"), 0o644)
	}
	var env []string
	if len(v.envGraf) > 0 {
		gf := filepath.Join(dir, "caller-grafts")
		os.WriteFile(gf, []byte(strings.Join(v.envGraf, "\n")+"\n"), 0o644)
		env = append(env, "GIT_GRAFT_FILE="+gf)
	}
	if v.noRepl {
		env = append(env, "GIT_NO_REPLACE_OBJECTS=1")
	}
	if v.shallow != "" {
		os.WriteFile(filepath.Join(gd, "shallow"), []byte(string(v.shallow)+"\n"), 0o644)
	}
	if v.config != "" {
		c0, _ := os.ReadFile(filepath.Join(gd, "config"))
		os.WriteFile(filepath.Join(gd, "config"), append(c0, []byte(v.config)...), 0o644)
	}
	os.Symlink(filepath.Join(work, "d"), filepath.Join(dir, "link"))
	bare := filepath.Join(dir, "bare.git")
	if out, err := exec.Command("cp", "-r", gd, bare).CombinedOutput(); err != nil {
		herr("cp: " + string(out))
		return
	}
	bc, _ := os.ReadFile(filepath.Join(bare, "config"))
	os.WriteFile(filepath.Join(bare, "config"), bytes.Replace(bc, []byte("bare = false"), []byte("bare = true"), 1), 0o644)
	os.RemoveAll(filepath.Join(bare, "worktrees")) // the bare copy carries no linked worktrees
	// "elsewhere" is the top of the work tree of ANOTHER non-bare repository: a
	// run that names its repository through GIT_DIR / --git-dir from there must
	// still measure the named one
	elsewhere := filepath.Join(dir, "elsewhere")
	os.MkdirAll(elsewhere, 0o755)
	{
		other := mrepo.New()
		ob := other.AddBlob([]byte("another repository\n"))
		ot := other.AddTree([]mrepo.Entry{{Mode: 0o100644, Name: "other.txt", Child: ob}})
		oc := other.AddCommit(mrepo.CommitSpec{Tree: ot, Time: gen.T0, Message: "the only commit of the other repository\n"})
		other.SetRef("refs/heads/main", oc)
		other.Head = "ref: refs/heads/main"
		ogd := filepath.Join(elsewhere, ".git")
		if err := realgit.Materialise(other, ogd); err != nil {
			herr(err.Error())
			return
		}
		oc2, _ := os.ReadFile(filepath.Join(ogd, "config"))
		os.WriteFile(filepath.Join(ogd, "config"), bytes.Replace(oc2, []byte("bare = true"), []byte("bare = false"), 1), 0o644)
	}

	sc := &gen.Scenario{Repo: &stored}
	want := oracle.Compute(&stored, sc.Roots()).Numbers()
	// what a run addressed through the linked worktree must see
	storedWT := stored
	storedWT.Refs = append([]mrepo.Ref(nil), stored.Refs...)
	if v.wtRef != "" {
		storedWT.SetRef("refs/worktree/only", v.wtRef)
	}
	wantWT := oracle.Compute(&storedWT, (&gen.Scenario{Repo: &storedWT}).Roots()).Numbers()
	for _, args := range [][]string{{"--json", "--no-progress"}, {"-v", "--no-progress"}} {
		var first *cli.Result
		firstMode := ""
		for _, m := range modes {
			res := m.run(work, wt2, bare, elsewhere, env, args)
			sh.C.Evals++
			mk := func(class, msg string) {
				sh.C.Violate(explore.Violation{Property: "C13", Class: class, Msg: fmt.Sprintf("%s: %s [%s, args %v]", m.name, msg, desc, args),
					Case: caseJSON(sh.Index(), map[string]any{"desc": desc, "mode": m.name, "args": args})})
			}
			if v.shallow != "" {
				if !isCleanError(res) {
					mk("shallow-measured", fmt.Sprintf("a shallow repository must be refused; got exit %d, %d bytes of stdout, stderr %q", res.Exit, len(res.Stdout), tailBytes(res.Stderr, 300)))
				}
				sh.C.Outcome("shallow-refused")
				continue
			}
			if res.Exit != 0 {
				mk("error", fmt.Sprintf("exit %d: %s", res.Exit, tailBytes(res.Stderr, 400)))
				continue
			}
			if v.wtRef != "" && m.name == "linked worktree" {
				// this mode legitimately sees one more reference: judged against its own oracle
				if args[0] == "--json" {
					nums, _, err := parseV1(res.Stdout)
					if err != nil {
						mk("error", "invalid JSON: "+err.Error())
						continue
					}
					var diffs []string
					for _, k := range allNumericKeys() {
						if nums[k] != wantWT[k] {
							diffs = append(diffs, fmt.Sprintf("%s: reported %d, the linked worktree's references reach %d", k, nums[k], wantWT[k]))
						}
					}
					if nums["reference_count"] != uint64(len(storedWT.Refs)) {
						diffs = append(diffs, fmt.Sprintf("reference_count: reported %d, the linked worktree sees %d references", nums["reference_count"], len(storedWT.Refs)))
					}
					if len(diffs) > 0 {
						mk("not-the-stored-objects", strings.Join(diffs, "; "))
					}
				}
				continue
			}
			if first == nil {
				r := res
				first, firstMode = &r, m.name
				if args[0] == "--json" {
					nums, _, err := parseV1(res.Stdout)
					if err != nil {
						mk("error", "invalid JSON: "+err.Error())
						continue
					}
					var diffs []string
					for _, k := range allNumericKeys() {
						if nums[k] != want[k] {
							diffs = append(diffs, fmt.Sprintf("%s: reported %d, stored objects give %d", k, nums[k], want[k]))
						}
					}
					if nums["reference_count"] != uint64(len(stored.Refs)) {
						diffs = append(diffs, fmt.Sprintf("reference_count: reported %d, repository has %d references", nums["reference_count"], len(stored.Refs)))
					}
					if len(diffs) > 0 {
						mk("not-the-stored-objects", strings.Join(diffs, "; "))
					}
					sh.C.Outcome(fmt.Sprintf("c=%d b=%d", nums["unique_commit_count"], nums["unique_blob_size"]))
				}
			} else if !bytes.Equal(res.Stdout, first.Stdout) {
				mk("addressing", fmt.Sprintf("stdout differs from the run in mode %q (%d vs %d bytes)", firstMode, len(res.Stdout), len(first.Stdout)))
			}
		}
	}
	sh.C.Nontrivial++
	if v.name == "replace tree bigger" || v.name == "graft file: add parent" {
		sh.C.Sample(3, map[string]any{"desc": desc, "modes": len(modes), "replace": fmt.Sprint(v.replace), "grafts": v.grafts})
	}
}

func init() {
	Registry["C13"] = &Check{Level: "exploration", Worker: c13Worker, QuickBudget: 80 * time.Second, ThoroughBudget: 10 * time.Minute,
		Rule:        "real binary + real git: 2 base repositories x {plain; every single replacement of a commit, tip commit, tree, subtree, blob, tag by an otherwise unreachable bigger/other object and by an object that is reachable in its own right, with and without GIT_NO_REPLACE_OBJECTS in the caller's environment, and with core.useReplaceRefs=true in the repository's configuration; every single graft (add a parent, drop all parents, redirect, give the root a parent) in .git/info/grafts and in a file named by GIT_GRAFT_FILE in the caller's environment; a shallow marker; a per-worktree reference (refs/worktree/only) in the linked worktree, which only runs addressed through that worktree must see; thorough additionally replaces every reachable object in turn, grafts every commit in turn, and combines every replacement with every graft} x 10 addressing modes of a repository whose path contains a blank (top, subdirectory, inside .git, bare copy, linked worktree, GIT_DIR absolute from the top of another repository's work tree, GIT_DIR relative, GIT_DIR relative with .. through a symlinked current directory, git -C <dir> sizer, git --git-dir=<d> sizer) x {JSON, verbose table}: stdout byte-identical across modes; numbers equal the oracle on the objects actually stored (refs/replace/* counting as ordinary references); shallow refused cleanly in every mode; plus, through fakegit's log, every git command of a run carries --no-replace-objects, GIT_GRAFT_FILE=/dev/null and the resolved GIT_DIR even when the caller's environment sets other values. non-trivial = every variant",
		Assumptions: []string{"git 2.39.5; the linked worktree is created with git worktree add (detached at the root commit)"}}
}
