package checks

import (
	"strings"

	"verif/explore"
	"verif/inproc"
)

func init() {
	// A verdict reached while the model git was asked for a read-only command
	// it does not implement says nothing about git-sizer: the model has to be
	// extended first (harness error, exit 2), whatever the check concluded.
	explore.Reclassify = func(v *explore.Violation) {
		if strings.HasPrefix(v.Class, "HARNESS/") {
			return
		}
		if u := inproc.CurrentUnmodelled(); u != "" {
			v.Msg = "the model git does not implement the read-only command " + u + " (extend harness/modelgit); the check had concluded: " + v.Class + ": " + v.Msg
			v.Class = "HARNESS/unmodelled-git-command"
		}
	}
}
