package checks

import (
	"fmt"
	"io"
	"sort"
	"strings"
	"time"

	"github.com/github/git-sizer/git"
	"github.com/github/git-sizer/sizes"
	"github.com/github/git-sizer/verifbridge"
	"github.com/spf13/pflag"

	"verif/explore"
	"verif/refmodel"
)

// fakeConfigger serves refgroup configuration to the real RefGroupBuilder. It
// implements the documented contract of Repository.GetConfig (entries whose key
// starts with the prefix at a '.' boundary, prefix stripped) on a fixed list.
type fakeConfigger struct {
	entries []refmodel.ConfigEntry
}

func (c fakeConfigger) GetConfig(prefix string) (*git.Config, error) {
	cfg := &git.Config{Prefix: prefix}
	for _, e := range c.entries {
		switch {
		case prefix == "":
			cfg.Entries = append(cfg.Entries, git.ConfigEntry{Key: e.Key, Value: e.Value})
		case strings.HasSuffix(prefix, "."):
			// documented: a prefix ending in '.' matches whatever follows
			if strings.HasPrefix(e.Key, prefix) {
				cfg.Entries = append(cfg.Entries, git.ConfigEntry{Key: e.Key[len(prefix):], Value: e.Value})
			}
		case e.Key == prefix:
			cfg.Entries = append(cfg.Entries, git.ConfigEntry{Key: "", Value: e.Value})
		case strings.HasPrefix(e.Key, prefix+"."):
			cfg.Entries = append(cfg.Entries, git.ConfigEntry{Key: e.Key[len(prefix)+1:], Value: e.Value})
		}
	}
	return cfg, nil
}

// option of the C06 alphabet: the argv words and the model rule
type refOption struct {
	argv []string
	rule refmodel.Rule
}

var c06Config = []refmodel.ConfigEntry{
	{Key: "refgroup.mygroup.include", Value: "refs/heads/foo"},
	{Key: "refgroup.mygroup.exclude", Value: "refs/heads/foo/bar"},
	{Key: "refgroup.mygroup.sub.includeregexp", Value: "refs/heads/foo/.*"},
	{Key: "refgroup.rl.a.include", Value: "refs/tags/bar"},
	{Key: "refgroup.rl.b.include", Value: "refs/stash"},
	{Key: "refgroup.tags.rel.include", Value: "refs/tags/barx"},
	{Key: "refgroup.tags.rel.include", Value: "refs/heads/foo"}, // outside the parent: never a member
	// built-in groups augmented by configuration: @branches/@tags then differ
	// from the fixed options --branches/--tags, which stay plain prefix rules
	{Key: "refgroup.branches.include", Value: "refs/xtags"},
	{Key: "refgroup.stash.exclude", Value: "refs/stash"},
	{Key: "refgroup.deep.include", Value: "refs/heads"},
	{Key: "refgroup.deep.mid.includeregexp", Value: ".*/foo.*"},
	{Key: "refgroup.deep.mid.leaf.include", Value: "refs/heads"},
	{Key: "refgroup.deep.mid.leaf.include", Value: "refs/tags"},
}

var c06Universe = []string{
	"refs/heads/foo", "refs/heads/foobar", "refs/heads/foo/bar", "refs/heads/foo/baz", "refs/headsfoo", "refs/heads/release",
	"refs/tags/bar", "refs/tags/barx", "refs/tags/foo", "refs/xtags/bar", "refs/x/refs/tags/bar", "refs/stash", "refs/stash/x", "refs/stashed",
	"refs/notes/n", "refs/remotes/o/m", "refs/remotes/o/foo", "refs/pull/1/head", "refs/changes/01/1/2", "refs/heads/aab",
}

func c06Options(tier string) []refOption {
	var out []refOption
	patterns := []string{"refs/heads", "refs/heads/", "refs/hea", "refs/heads/foo", "", "refs/tags/bar", "refs/stash"}
	regexps := []string{"refs/heads/.*", "refs/(heads|tags)/foo", "refs/heads/foo|refs/tags/bar", ".*foo", "^refs/heads/foo$",
		"refs/heads/(fo|foo)", "refs/heads/a*(ab)?", "refs/tags/ba.+?"}
	groups := []string{"tags", "mygroup", "mygroup.sub", "rl", "tags.rel", "stash", "deep.mid.leaf", "branches"}
	if tier != "thorough" {
		patterns = patterns[:6]
		regexps = regexps[:6]
	}
	for _, inc := range []bool{true, false} {
		opt := "--exclude"
		if inc {
			opt = "--include"
		}
		for _, p := range patterns {
			out = append(out, refOption{[]string{opt, p}, refmodel.Rule{Include: inc, Kind: 'p', Pattern: p}})
		}
		for _, r := range regexps {
			out = append(out, refOption{[]string{opt, "/" + r + "/"}, refmodel.Rule{Include: inc, Kind: 'r', Pattern: r}})
		}
		for _, g := range groups {
			out = append(out, refOption{[]string{opt + "=@" + g}, refmodel.Rule{Include: inc, Kind: 'g', Pattern: g}})
		}
		out = append(out, refOption{[]string{opt + "-regexp", "refs/tags/.*"}, refmodel.Rule{Include: inc, Kind: 'r', Pattern: "refs/tags/.*"}})
	}
	out = append(out, refOption{[]string{"--refgroup", "mygroup"}, refmodel.Rule{Include: true, Kind: 'g', Pattern: "mygroup"}})
	for _, b := range []struct{ name, prefix string }{{"branches", "refs/heads"}, {"tags", "refs/tags"}, {"remotes", "refs/remotes"}, {"notes", "refs/notes"}} {
		out = append(out, refOption{[]string{"--" + b.name}, refmodel.Rule{Include: true, Kind: 'p', Pattern: b.prefix}})
		out = append(out, refOption{[]string{"--no-" + b.name}, refmodel.Rule{Include: false, Kind: 'p', Pattern: b.prefix}})
	}
	out = append(out, refOption{[]string{"--stash"}, refmodel.Rule{Include: true, Kind: 'r', Pattern: "refs/stash"}})
	out = append(out, refOption{[]string{"--no-stash"}, refmodel.Rule{Include: false, Kind: 'r', Pattern: "refs/stash"}})
	out = append(out, refOption{[]string{"--branches=false"}, refmodel.Rule{Include: false, Kind: 'p', Pattern: "refs/heads"}})
	out = append(out, refOption{[]string{"--no-tags=false"}, refmodel.Rule{Include: true, Kind: 'p', Pattern: "refs/tags"}})
	return out
}

// realGrouper builds the real RefGrouper for the argv through the real flag parser.
func realGrouper(cfg []refmodel.ConfigEntry, argv []string, rootPresent bool) (sizes.RefGrouper, error) {
	rgb, err := verifbridge.NewRefGroupBuilder(fakeConfigger{cfg})
	if err != nil {
		return nil, err
	}
	flags := pflag.NewFlagSet("git-sizer", pflag.ContinueOnError)
	flags.SetOutput(io.Discard)
	rgb.AddRefopts(flags)
	flags.SortFlags = false
	if err := flags.Parse(argv); err != nil {
		return nil, err
	}
	return rgb.Finish(!rootPresent)
}

func c06Worker(sh *explore.Shard) {
	opts := c06Options(sh.Tier)
	maxLen := 3
	if sh.Tier == "thorough" {
		maxLen = 4
	}
	forest, err := refmodel.NewForest(c06Config)
	if err != nil {
		panic(err)
	}
	var idx int64
	// the match relation first: the sequence enumeration below is the part that
	// the thorough tier's time budget may cut short
	c06Matcher(sh, forest, &idx)
	seq := make([]int, 0, maxLen)
	var rec func()
	check := func() {
		idx++
		if !sh.Mine(idx) {
			return
		}
		var argv []string
		var rules []refmodel.Rule
		for _, i := range seq {
			argv = append(argv, opts[i].argv...)
			rules = append(rules, opts[i].rule)
		}
		for _, rootPresent := range []bool{false, true} {
			rg, err := realGrouper(c06Config, argv, rootPresent)
			sh.C.Evals++
			if err != nil {
				sh.C.Violate(explore.Violation{Property: "C06", Class: "error", Msg: fmt.Sprintf("options %q rejected: %v", argv, err),
					Case: caseJSON(sh.Index(), map[string]any{"argv": argv, "root": rootPresent})})
				continue
			}
			var sig strings.Builder
			for _, ref := range c06Universe {
				walk, _ := rg.Categorize(ref)
				want := forest.Selected(rules, rootPresent, ref)
				if walk != want {
					class := "selection"
					// defect model of the (fixed) alternation anchoring: "^A|B$"
					sh.C.Violate(explore.Violation{Property: "C06", Class: class,
						Msg:  fmt.Sprintf("options %q (ROOT present: %v): %s traversed=%v, expected %v", argv, rootPresent, ref, walk, want),
						Case: caseJSON(sh.Index(), map[string]any{"argv": argv, "root": rootPresent, "ref": ref})})
				}
				if walk {
					sig.WriteByte('+')
				} else {
					sig.WriteByte('-')
				}
			}
			sh.C.Outcome(sig.String())
		}
		if len(seq) > 1 {
			sh.C.Nontrivial++
		}
		if idx%50021 == 7 {
			sh.C.Sample(4, map[string]any{"argv": argv, "rules": fmt.Sprint(rules)})
		}
	}
	rec = func() {
		check()
		if len(seq) == maxLen || sh.Expired() {
			return
		}
		for i := range opts {
			seq = append(seq, i)
			rec()
			seq = seq[:len(seq)-1]
		}
	}
	rec()
	sh.C.Add("option_alphabet", 0)
	if sh.I == 0 {
		sh.C.Add("option_alphabet", int64(len(opts)))
		sh.C.Add("reference_universe", int64(len(c06Universe)))
	}
	// the regexp matcher of the reference model against a differently written
	// matcher is covered by the CLI tier; here: sanity of the model itself
	_ = sort.Strings
}

// c06Matcher settles the match relation itself: every pattern over a token
// alphabet up to a length bound, as the only rule on the command line (include
// and exclude), against every name over {a,b,/} up to a length bound. Regular
// expressions go through --include-regexp and the /REGEXP/ spelling, prefixes
// through --include PREFIX (a word bracketed by '/' being a regexp, as
// documented). Patterns the reference matcher's grammar does not cover or that
// Go's regexp package rejects are counted and skipped.
func c06Matcher(sh *explore.Shard, forest *refmodel.Forest, idx *int64) {
	maxPat, maxName := 5, 4
	if sh.Tier == "thorough" {
		maxPat, maxName = 6, 5
	}
	var names []string
	var gen func(alpha string, max int, cur []byte, f func(string))
	gen = func(alpha string, max int, cur []byte, f func(string)) {
		f(string(cur))
		if len(cur) == max {
			return
		}
		for i := 0; i < len(alpha); i++ {
			gen(alpha, max, append(cur, alpha[i]), f)
		}
	}
	gen("ab/", maxName, nil, func(w string) {
		if w != "" {
			names = append(names, w)
		}
	})
	var compared, skipped, matched int64
	one := func(argv []string, rule refmodel.Rule) {
		*idx++
		if !sh.Mine(*idx) || sh.Expired() {
			return
		}
		if rule.Kind == 'r' {
			if _, err := refmodel.ParseRegex(rule.Pattern); err != nil {
				skipped++
				return
			}
		}
		rg, err := realGrouper(nil, argv, false)
		sh.C.Evals++
		if err != nil {
			// syntax the real regexp package rejects (nested repetition ...): no verdict
			skipped++
			return
		}
		rules := []refmodel.Rule{rule}
		var sig strings.Builder
		for _, ref := range names {
			walk, _ := rg.Categorize(ref)
			want := forest.Selected(rules, false, ref)
			compared++
			if want == rule.Include {
				matched++
			}
			if walk != want {
				sh.C.Violate(explore.Violation{Property: "C06", Class: "match-relation",
					Msg:  fmt.Sprintf("options %q: name %q traversed=%v, expected %v (pattern %q must match the whole name / a prefix only at a component boundary)", argv, ref, walk, want, rule.Pattern),
					Case: caseJSON(sh.Index(), map[string]any{"argv": argv, "ref": ref})})
				break
			}
			if walk {
				sig.WriteByte('+')
			} else {
				sig.WriteByte('-')
			}
		}
		sh.C.Nontrivial++
		if maxName <= 4 {
			sh.C.Outcome("m" + sig.String())
		}
	}
	gen("ab/.*?+|()", maxPat, nil, func(p string) {
		one([]string{"--include-regexp", p}, refmodel.Rule{Include: true, Kind: 'r', Pattern: p})
		if len(p) <= 3 {
			one([]string{"--exclude", "/" + p + "/"}, refmodel.Rule{Include: false, Kind: 'r', Pattern: p})
		}
	})
	// prefixes are literal text: characters that mean something in a regular
	// expression are part of the alphabet, and of the names they are matched against
	regexNames := names
	names = nil
	gen("ab/.", maxName, nil, func(w string) {
		if w != "" {
			names = append(names, w)
		}
	})
	gen("ab/.+", maxPat-1, nil, func(p string) {
		for _, inc := range []bool{true, false} {
			opt := "--exclude"
			if inc {
				opt = "--include"
			}
			rule := refmodel.Rule{Include: inc, Kind: 'p', Pattern: p}
			if len(p) >= 2 && p[0] == '/' && p[len(p)-1] == '/' {
				// documented: an argument bracketed by '/' is a regular expression
				rule = refmodel.Rule{Include: inc, Kind: 'r', Pattern: p[1 : len(p)-1]}
			}
			one([]string{opt, p}, rule)
		}
	})
	names = regexNames
	sh.C.Add("matcher_pairs_compared", compared)
	sh.C.Add("matcher_pairs_matching", matched)
	sh.C.Add("matcher_patterns_skipped(outside the model grammar or rejected by Go regexp)", skipped)
}

func init() {
	Registry["C06"] = &Check{Level: "exploration", Worker: c06Worker, QuickBudget: 200 * time.Second, ThoroughBudget: 25 * time.Minute,
		Rule:        "all option sequences of length <=3 (quick) / <=4 (thorough) over the option alphabet (include/exclude x prefixes cut at and off component boundaries, regexps with alternation/anchors/lazy and backtracking quantifiers, @refgroups incl. nested, rule-less and augmented built-in groups; -regexp and --refgroup spellings; every --[no-]{branches,tags,remotes,notes,stash} incl. =false) x ROOT present/absent, parsed by the real pflag + RefGroupBuilder; Categorize() of every reference of a boundary-built universe compared with an independent fold and an independent full-match regexp matcher; plus the match relation itself: every regexp over the tokens a b / . * ? + | ( ) of length <=5 (<=6) as the only rule against every name over a b / of length <=4 (<=5), and every prefix over a b / . + of length <=4 (<=5) against every name over a b / . of that length. non-trivial = sequences of length >= 2 and single-pattern cases",
		Assumptions: []string{"refgroup configuration is served by a fake Configger implementing GetConfig's documented contract (C15 owns the real parser)", "regular expressions are limited to the grammar of the reference matcher (literals . * + ? | groups \\d anchors)"}}
}
