// Package checks holds one worker per property and the shared reporting logic.
package checks

import (
	"encoding/json"
	"errors"
	"fmt"
	"sort"
	"time"

	"verif/evid"
	"verif/explore"
)

type Check struct {
	Level          string // evidence level
	Worker         explore.WorkerFunc
	Parent         func(prop, tier string) int // optional custom parent
	Shards         int
	QuickBudget    time.Duration
	ThoroughBudget time.Duration
	Rule           string
	Assumptions    []string
	// Replay, if set, re-executes one recorded case directly (without the
	// explorer) and returns the violation message ("" = the case passes).
	Replay func(caseJSON []byte) (string, error)
	// ReplayExe: harness executable the replay must run in ("" = vcheck).
	ReplayExe string
	// Known maps a violation class to the id of a known finding it may be
	// reported under (only if that id is listed in known_findings.txt).
}

var Registry = map[string]*Check{}

// ErrUseWorker is returned by a Check.Replay that cannot replay the case
// directly: the case is then re-run through the worker, restricted to its index.
var ErrUseWorker = errors.New("replay through the worker")

// Finish classifies crashes and violations, prints the verdict lines, writes
// the evidence file and returns the exit status.
func Finish(root, prop, tier string, ck *Check, total *explore.Counters, crashes []explore.Crash, start time.Time) int {
	status := 0
	harnessErr := false
	known := explore.LoadKnown(root + "/known_findings.txt")
	listed := map[string]explore.KnownFinding{}
	for _, k := range known {
		if k.Kind == "finding" && k.Property == prop {
			listed[k.ID] = k
		}
	}
	// crashed workers: re-run the case in isolation 5x and classify
	for _, c := range crashes {
		if c.Case < 0 || c.Exit == "start" || c.Exit == "bad worker output" {
			fmt.Printf("HARNESS-ERROR: worker %d failed (%s): %s\n", c.Shard, c.Exit, c.Stderr)
			harnessErr = true
			continue
		}
		fails, stderr, lc := explore.RerunCase("", prop, tier, c.Case, 5, 5*time.Minute, nil)
		if fails == 5 {
			v := explore.Violation{Property: prop, Class: "crash", Msg: fmt.Sprintf("worker crashes deterministically on case %d (%s)", c.Case, c.Exit),
				Case: json.RawMessage(fmt.Sprintf(`{"index":%d}`, c.Case)), Detail: stderr}
			if lc != nil && len(lc.Violations) > 0 {
				v = lc.Violations[0]
			}
			total.Violations = append(total.Violations, v)
		} else {
			fmt.Printf("HARNESS-ERROR: worker %d died on case %d (%s) but the case fails only %d/5 times in isolation\n%s\n", c.Shard, c.Case, c.Exit, fails, c.Stderr)
			harnessErr = true
		}
	}
	// violations: group by class; confirm determinism of up to 3 distinct cases per class
	byClass := map[string][]explore.Violation{}
	for _, v := range total.Violations {
		byClass[v.Class] = append(byClass[v.Class], v)
	}
	classes := make([]string, 0, len(byClass))
	for c := range byClass {
		classes = append(classes, c)
	}
	sort.Strings(classes)
	nviol := 0
	for _, cl := range classes {
		vs := byClass[cl]
		if len(cl) >= 8 && cl[:8] == "HARNESS/" {
			fmt.Printf("HARNESS-ERROR: %s (%d cases): %s\n", cl, len(vs), vs[0].Msg)
			harnessErr = true
			continue
		}
		if k, ok := listed[cl]; ok {
			fmt.Printf("KNOWN-FINDING: property=%s %s (%d cases this run; e.g. %s)\n", prop, k.What, len(vs), vs[0].Msg)
			continue
		}
		confirmed := false
		for i, v := range vs {
			if i >= 3 {
				break
			}
			var cs struct {
				Index int64 `json:"index"`
			}
			json.Unmarshal(v.Case, &cs)
			if ck.Parent != nil || ck.Worker == nil {
				confirmed = true
				break
			}
			fails := 5
			if !v.Confirmed {
				fails, _, _ = explore.RerunCase(v.Exe, prop, tier, cs.Index, 5, 5*time.Minute, nil)
			}
			if fails == 5 {
				confirmed = true
				p := explore.WriteReplay(root, v, tier)
				fmt.Printf("VIOLATION property=%s replay=%s\n", prop, p)
				fmt.Printf("  class=%s %s\n", v.Class, v.Msg)
				nviol++
				break
			}
			fmt.Printf("HARNESS-ERROR: case %d of %s failed in the run but only %d/5 times in isolation: %s\n", cs.Index, prop, fails, v.Msg)
			harnessErr = true
		}
		if confirmed && ck.Parent != nil {
			p := explore.WriteReplay(root, vs[0], tier)
			fmt.Printf("VIOLATION property=%s replay=%s\n", prop, p)
			fmt.Printf("  class=%s %s\n", vs[0].Class, vs[0].Msg)
			nviol++
		}
	}
	if nviol > 0 {
		status = 1
	} else if harnessErr {
		status = 2
	}
	WriteEvidence(root, prop, tier, ck, total, nviol, start)
	fmt.Printf("%s %s: evaluations=%d nontrivial=%d states=%d transitions=%d validated=%d outcomes=%d exhaustive=%v violations=%d wall=%.1fs\n",
		prop, tier, total.Evals, total.Nontrivial, total.States, total.Transitions, total.Validated, len(total.Outcomes), total.Exhaustive, nviol, time.Since(start).Seconds())
	for _, c := range total.CapsHit {
		fmt.Println("  cap:", c)
	}
	return status
}

func WriteEvidence(root, prop, tier string, ck *Check, total *explore.Counters, nviol int, start time.Time) {
	cov := map[string]any{
		"evaluations":         total.Evals,
		"distinct_nontrivial": total.Nontrivial,
		"rule":                ck.Rule,
		"samples":             total.Samples,
		"exhaustive":          total.Exhaustive,
		"distinct_outcomes":   len(total.Outcomes),
	}
	if len(total.Samples) == 0 {
		cov["samples"] = []any{"(no sample recorded)"}
	}
	if ck.Level == "model_checking" {
		cov["states"] = total.States
		cov["transitions"] = total.Transitions
		cov["traces_validated_against_impl"] = total.Validated
	}
	if len(total.CapsHit) > 0 {
		cov["caps_hit"] = total.CapsHit
	}
	if len(total.Notes) > 0 {
		cov["notes"] = total.Notes
	}
	for k, v := range total.Extra {
		cov[k] = v
	}
	evid.Write(root, evid.File{
		PropertyID: prop, Tier: tier, Level: ck.Level, Coverage: cov,
		Assumptions: ck.Assumptions, WallS: time.Since(start).Seconds(), Violations: nviol,
	})
}
