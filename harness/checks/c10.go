package checks

import (
	"bytes"
	"fmt"
	"regexp"

	"github.com/github/git-sizer/sizes"

	"os"
	"path/filepath"
	"strings"
	"time"

	"verif/cli"
	"verif/explore"
	"verif/gen"
	"verif/inproc"
	"verif/modelgit"
	"verif/mrepo"
	"verif/oracle"
	"verif/realgit"
)

type c10Scenario struct {
	name string
	repo *mrepo.Repo
	args []string
}

func c10Scenarios(tier string) []c10Scenario {
	r1, _ := c08Repo()
	r1.Config = []mrepo.ConfigEntry{{Key: "refgroup.mine.include", Value: "refs/heads"}, {Key: "refgroup.mine.sub.include", Value: "refs/heads/main"}}
	// a history with a merge and several blobs
	r2 := mrepo.New()
	lv := gen.AddLeaves(r2)
	t0 := r2.AddTree([]mrepo.Entry{{Mode: 0o100644, Name: "a", Child: lv.BlobA}, {Mode: 0o100644, Name: "c", Child: lv.BlobC}})
	t1 := r2.AddTree([]mrepo.Entry{{Mode: 0o40000, Name: "d", Child: t0}, {Mode: 0o100755, Name: "x", Child: lv.BlobB}})
	c0 := r2.AddCommit(mrepo.CommitSpec{Tree: t0, Time: gen.T0, Message: "c0\n"})
	c1 := r2.AddCommit(mrepo.CommitSpec{Tree: t1, Parents: []mrepo.ID{c0}, Time: gen.T0 + 100, Message: "c1\n"})
	c2 := r2.AddCommit(mrepo.CommitSpec{Tree: t0, Parents: []mrepo.ID{c0}, Time: gen.T0 + 150, Message: "c2\n"})
	m := r2.AddCommit(mrepo.CommitSpec{Tree: t1, Parents: []mrepo.ID{c1, c2}, Time: gen.T0 + 200, Message: "merge\n"})
	r2.SetRef("refs/heads/main", m)
	r2.SetRef("refs/heads/side", c2)
	r2.SetRef("refs/tags/v", r2.AddTag(mrepo.TagSpec{Target: m, Name: "v", Time: gen.T0, Message: "v\n"}))
	r2.Head = "ref: refs/heads/main"
	// many references: the feeder has to push more than any pipe buffer holds
	r3 := mrepo.New()
	lv3 := gen.AddLeaves(r3)
	t3 := r3.AddTree([]mrepo.Entry{{Mode: 0o100644, Name: "a", Child: lv3.BlobA}})
	c3 := r3.AddCommit(mrepo.CommitSpec{Tree: t3, Time: gen.T0, Message: "c\n"})
	nrefs := 3000
	for i := 0; i < nrefs; i++ {
		r3.Refs = append(r3.Refs, mrepo.Ref{Name: fmt.Sprintf("refs/heads/b%05d", i), ID: c3})
	}
	r3.Head = "ref: refs/heads/b00000"
	out := []c10Scenario{
		{"root kinds, table", r1, []string{"--no-progress"}},
		{"root kinds, JSON v1 with ROOT", r1, []string{"--no-progress", "--json", "main:d"}},
		{"root kinds, JSON v2 with refgroup", r1, []string{"--no-progress", "--json", "--json-version=2", "--include=@mine"}},
		{"merge history, verbose table", r2, []string{"--no-progress", "-v"}},
		{"merge history, progress on, JSON", r2, []string{"--progress", "-j"}},
		{"3000 references", r3, []string{"--no-progress", "--json"}},
	}
	return out
}

// isPanicTrace: stderr carries a Go panic or fatal-error trace.
func isPanicTrace(stderr []byte) bool {
	return bytes.Contains(stderr, []byte("panic:")) || bytes.Contains(stderr, []byte("fatal error:")) || bytes.Contains(stderr, []byte("\ngoroutine "))
}

// hasErrorMessage: stderr tells the user that something went wrong -- some
// text other than progress output, and not a crash trace. (The wording is the
// program's business: the statement asks for "an error message".)
func hasErrorMessage(stderr []byte) bool {
	if isPanicTrace(stderr) {
		return false
	}
	for _, line := range bytes.Split(stderr, []byte("\n")) {
		if i := bytes.LastIndexByte(line, '\r'); i >= 0 {
			line = line[i+1:] // progress frames end in CR
		}
		if len(bytes.TrimSpace(line)) > 0 && !c10ProgressLine.Match(line) {
			return true
		}
	}
	return false
}

var c10ProgressLine = regexp.MustCompile(`^[A-Z][A-Za-z ]+: +[0-9]+\b.*$`)

type c10Fault struct {
	f    modelgit.Fault
	desc string
	// benign: the fault is a legitimate answer (config --get exit 1 = unset)
	benign bool
}

// c10Faults derives the single-fault set from the fault-free invocation log.
func c10Faults(log []modelgit.Invocation, outputs map[string][]byte, tier string, many bool) []c10Fault {
	var out []c10Fault
	for _, inv := range log {
		if inv.Kind == modelgit.KUnexpected {
			continue
		}
		base := modelgit.Fault{Kind: inv.Kind, Nth: inv.Nth, StdoutBytes: -1, StdinLines: -1}
		exits := []int{1, 128, -9}
		// (1) exit status after complete output
		for _, e := range exits {
			f := base
			f.AtExit, f.Exit = true, e
			benign := inv.Kind == modelgit.KConfigGet && e == 1 && inv.OutLen == 0
			out = append(out, c10Fault{f, fmt.Sprintf("%s#%d exits %d after its complete output", inv.Kind, inv.Nth, e), benign})
		}
		// (2) death after k bytes of stdout
		data := outputs[fmt.Sprintf("%s#%d", inv.Kind, inv.Nth)]
		ks := map[int]bool{}
		if tier == "thorough" && !many {
			for k := 0; k < inv.OutLen; k++ {
				ks[k] = true
			}
		} else {
			ks[0] = true
			nl := 0
			for i, c := range data {
				if c == '\n' || c == 0 {
					nl++
					if many && nl > 6 && nl%500 != 0 {
						continue
					}
					for _, d := range []int{-1, 0, 1} {
						if k := i + 1 + d; k >= 0 && k < inv.OutLen {
							ks[k] = true
						}
					}
				}
			}
			if inv.OutLen > 1 {
				ks[inv.OutLen-1] = true
				ks[inv.OutLen/2] = true
			}
		}
		for k := 0; k < inv.OutLen; k++ {
			if !ks[k] {
				continue
			}
			for _, e := range exits {
				if e != 1 && k%3 != 0 && tier != "thorough" {
					continue
				}
				f := base
				f.StdoutBytes, f.Exit = k, e
				out = append(out, c10Fault{f, fmt.Sprintf("%s#%d dies (%d) after %d of %d bytes of stdout", inv.Kind, inv.Nth, e, k, inv.OutLen), false})
			}
		}
		// (3) death after reading j lines of stdin
		if inv.Kind == modelgit.KRevList || inv.Kind == modelgit.KBatchCheck || inv.Kind == modelgit.KBatch {
			lines := strings.Count(inv.Stdin, "\n")
			for j := 0; j <= lines; j++ {
				if many && j > 3 && j != lines && j%1000 != 0 {
					continue
				}
				for _, e := range []int{128, -9} {
					f := base
					f.StdinLines, f.Exit = j, e
					out = append(out, c10Fault{f, fmt.Sprintf("%s#%d dies (%d) after reading %d of %d stdin lines", inv.Kind, inv.Nth, e, j, lines), false})
				}
			}
		}
	}
	return out
}

func c10Worker(sh *explore.Shard) {
	dir := scratch("c10")
	defer os.RemoveAll(dir)
	var idx int64
	scs := c10Scenarios(sh.Tier)
	horizon := 60 * time.Second
	for si, sc := range scs {
		many := len(sc.repo.Refs) > 100
		fs, err := cli.NewFakeSession(filepath.Join(dir, fmt.Sprintf("fake%d", si)), sc.repo, &modelgit.Plan{GitDir: "/model/.git"})
		if err != nil {
			panic(err)
		}
		// fault-free run R0 and the output of every invocation
		r0 := cli.Run(dir, cli.FakeGitDir, fs.Env(), horizon, sc.args...)
		log := fs.Log()
		if r0.Exit != 0 || len(log) < 5 {
			sh.C.Violate(explore.Violation{Property: "C10", Class: "HARNESS/baseline", Msg: fmt.Sprintf("fault-free run of %q failed: exit %d %s", sc.name, r0.Exit, r0.Stderr), Case: caseJSON(0, nil)})
			continue
		}
		outputs := map[string][]byte{}
		env := modelgit.NewEnv(sc.repo, &modelgit.Plan{GitDir: "/model/.git"})
		for _, inv := range log {
			var b bytes.Buffer
			env.Run(inv.Args, nil, strings.NewReader(inv.Stdin), &b, inv.Nth)
			outputs[fmt.Sprintf("%s#%d", inv.Kind, inv.Nth)] = b.Bytes()
		}
		faults := c10Faults(log, outputs, sh.Tier, many)
		if sh.I == 0 {
			sh.C.Sample(6, map[string]any{"scenario": sc.name, "args": sc.args, "invocations": len(log), "single_faults": len(faults)})
		}
		for _, ft := range faults {
			idx++
			if !sh.Mine(idx) || sh.Expired() {
				continue
			}
			fs.SetPlan(&modelgit.Plan{GitDir: "/model/.git", Faults: []modelgit.Fault{ft.f}})
			res := cli.Run(dir, cli.FakeGitDir, fs.Env(), horizon, sc.args...)
			sh.C.Evals++
			sh.C.Nontrivial++
			mk := func(class, msg string) {
				sh.C.Violate(explore.Violation{Property: "C10", Class: class, Msg: fmt.Sprintf("%s: %s [%s, args %v]", ft.desc, msg, sc.name, sc.args),
					Case: caseJSON(sh.Index(), map[string]any{"scenario": sc.name, "fault": ft.f})})
			}
			// single fault on a deterministic command sequence: the faulted
			// invocation always starts, so the fault always fires (the model
			// git's own log cannot be used: git-sizer may exit before that
			// process has written its record)
			fired := true
			switch {
			case res.TimedOut:
				mk("hang", fmt.Sprintf("no termination within %v", horizon))
				sh.C.Outcome("hang")
			case res.Exit == 0:
				if !bytes.Equal(res.Stdout, r0.Stdout) {
					mk("wrong-report", "exit status 0 but the report differs from the fault-free one")
				} else if fired && !ft.benign {
					class := "fault-ignored"
					if ft.f.Kind == modelgit.KBatch && ft.f.AtExit {
						class = "C10-batch-exit-status"
					}
					mk(class, "a git subprocess failed but git-sizer exits 0 (with the complete report)")
				}
				sh.C.Outcome("exit0-same-report")
			default:
				if ft.benign {
					mk("benign-rejected", fmt.Sprintf("git's documented 'unset' answer was treated as an error: %s", tailBytes(res.Stderr, 200)))
				}
				if len(res.Stdout) != 0 {
					mk("partial-report", fmt.Sprintf("non-zero exit %d but %d bytes were written to stdout", res.Exit, len(res.Stdout)))
				}
				if !hasErrorMessage(res.Stderr) {
					if isPanicTrace(res.Stderr) {
						mk("panic", "the run panicked: "+tailBytes(res.Stderr, 300))
					} else {
						mk("no-error-message", fmt.Sprintf("exit %d without an error message on stderr: %q", res.Exit, tailBytes(res.Stderr, 200)))
					}
				}
				sh.C.Outcome(fmt.Sprintf("exit%d-clean-error", res.Exit))
			}
		}
		c10Extras(sh, &idx, dir, si, sc, fs, r0, log, outputs)
	}
	c10RealGit(sh, &idx, dir)
	c10InProc(sh, &idx)
}

// c10Extras: (a) every single-split chunking of every output stream with no
// fault: the report must equal the fault-free one; (b, thorough) every pair of
// simultaneous faults inside the first pipeline at record granularity.
func c10Extras(sh *explore.Shard, idx *int64, dir string, si int, sc c10Scenario, fs *cli.FakeSession, r0 cli.Result, log []modelgit.Invocation, outputs map[string][]byte) {
	horizon := 60 * time.Second
	boundaries := func(inv modelgit.Invocation) []int {
		data := outputs[fmt.Sprintf("%s#%d", inv.Kind, inv.Nth)]
		var ks []int
		for i, c := range data {
			if c == '\n' || c == 0 {
				ks = append(ks, i+1)
			}
		}
		return ks
	}
	if len(sc.repo.Refs) > 100 {
		return
	}
	for _, inv := range log {
		if inv.Nth != 0 || inv.OutLen < 2 {
			continue
		}
		for _, b := range boundaries(inv) {
			for _, d := range []int{-1, 0, 1} {
				k := b + d
				if k <= 0 || k >= inv.OutLen {
					continue
				}
				*idx++
				if !sh.Mine(*idx) || sh.Expired() {
					continue
				}
				fs.SetPlan(&modelgit.Plan{GitDir: "/model/.git", SplitAt: map[string]int{inv.Kind: k}, FlushEvery: 1})
				res := cli.Run(dir, cli.FakeGitDir, fs.Env(), horizon, sc.args...)
				sh.C.Evals++
				sh.C.Nontrivial++
				sh.C.Add("chunking_runs", 1)
				if res.Exit != 0 || !bytes.Equal(res.Stdout, r0.Stdout) {
					sh.C.Violate(explore.Violation{Property: "C10", Class: "chunking", Msg: fmt.Sprintf("%s output delivered in two writes split at byte %d (no fault): exit %d, report differs=%v [%s]", inv.Kind, k, res.Exit, !bytes.Equal(res.Stdout, r0.Stdout), sc.name),
						Case: caseJSON(sh.Index(), map[string]any{"scenario": sc.name, "kind": inv.Kind, "split": k})})
				}
			}
		}
	}
	if sh.Tier != "thorough" || si > 1 {
		return
	}
	// pairs of faults among the invocations of the scanning pipelines
	var pipeInv []modelgit.Invocation
	for _, inv := range log {
		if inv.Kind == modelgit.KRevList || inv.Kind == modelgit.KBatchCheck || inv.Kind == modelgit.KBatch {
			pipeInv = append(pipeInv, inv)
		}
	}
	for a := 0; a < len(pipeInv); a++ {
		for b := a + 1; b < len(pipeInv); b++ {
			for _, ka := range append([]int{0}, boundaries(pipeInv[a])...) {
				for _, kb := range append([]int{0}, boundaries(pipeInv[b])...) {
					if ka >= pipeInv[a].OutLen || kb >= pipeInv[b].OutLen {
						continue
					}
					*idx++
					if !sh.Mine(*idx) || sh.Expired() {
						continue
					}
					fa := modelgit.Fault{Kind: pipeInv[a].Kind, Nth: pipeInv[a].Nth, StdoutBytes: ka, StdinLines: -1, Exit: 128}
					fb := modelgit.Fault{Kind: pipeInv[b].Kind, Nth: pipeInv[b].Nth, StdoutBytes: kb, StdinLines: -1, Exit: 1}
					fs.SetPlan(&modelgit.Plan{GitDir: "/model/.git", Faults: []modelgit.Fault{fa, fb}})
					res := cli.Run(dir, cli.FakeGitDir, fs.Env(), horizon, sc.args...)
					sh.C.Evals++
					sh.C.Nontrivial++
					sh.C.Add("fault_pair_runs", 1)
					if res.TimedOut || res.Exit == 0 || len(res.Stdout) != 0 || !hasErrorMessage(res.Stderr) {
						sh.C.Violate(explore.Violation{Property: "C10", Class: "fault-pair", Msg: fmt.Sprintf("two faults (%s after %d bytes, %s after %d bytes): hang=%v exit=%d stdout=%d bytes stderr=%q [%s]", fa.Kind, ka, fb.Kind, kb, res.TimedOut, res.Exit, len(res.Stdout), tailBytes(res.Stderr, 200), sc.name),
							Case: caseJSON(sh.Index(), map[string]any{"scenario": sc.name, "faults": []modelgit.Fault{fa, fb}})})
					}
				}
			}
		}
	}
}

// c10InProc repeats single stdout/exit faults at EVERY byte position on many
// more repositories, in-process (real CollectReferences +
// ScanRepositoryUsingGraph over the shim pipe): the scan must return an error,
// never a result, never panic. (The CLI tier above is the authoritative one;
// this tier widens the scenario set.)
func c10InProc(sh *explore.Shard, idx *int64) {
	install()
	stride := int64(41)
	if sh.Tier == "thorough" {
		stride = 7
	}
	var n int64
	mixedScenarios("quick", func(r *mrepo.Repo, special map[string]mrepo.ID, desc string) bool {
		n++
		if n%stride != 0 {
			return true
		}
		*idx++
		if !sh.Mine(*idx) {
			return true
		}
		if sh.Expired() {
			return false
		}
		sc := &gen.Scenario{Repo: r, Explicit: [][2]string{{"blobC", string(special["blobC"])}}, Desc: desc}
		probe := inproc.Scan(modelgit.NewEnv(r, &modelgit.Plan{}), inproc.SimpleGrouper{Walk: sc.Walks}, sc.Explicit, sizes.NameStyleFull, nil)
		if probe.Err != nil || probe.Panic != nil {
			return true
		}
		for _, inv := range probe.Log {
			for k := 0; k <= inv.OutLen; k++ {
				for _, exit := range []int{1, -9} {
					f := modelgit.Fault{Kind: inv.Kind, Nth: inv.Nth, StdoutBytes: k, StdinLines: -1, Exit: exit}
					if k == inv.OutLen {
						f.StdoutBytes, f.AtExit = -1, true
					}
					res := inproc.Scan(modelgit.NewEnv(r, &modelgit.Plan{Faults: []modelgit.Fault{f}}), inproc.SimpleGrouper{Walk: sc.Walks}, sc.Explicit, sizes.NameStyleFull, nil)
					sh.C.Evals++
					sh.C.Add("inproc_fault_scans", 1)
					if res.Hang {
						sh.C.Violate(explore.Violation{Property: "C10", Class: "hang", Msg: fmt.Sprintf("in-process: %s#%d dies (%d) after %d of %d bytes: %v [%s]", inv.Kind, inv.Nth, exit, k, inv.OutLen, res.Err, desc),
							Case: caseJSON(sh.Index(), map[string]any{"desc": desc, "fault": f}), Detail: r.Describe()})
						return false
					}
					if res.Panic != nil || res.Err == nil {
						sh.C.Violate(explore.Violation{Property: "C10", Class: "inproc-fault", Msg: fmt.Sprintf("in-process: %s#%d dies (%d) after %d of %d bytes: panic=%v, error returned=%v [%s]", inv.Kind, inv.Nth, exit, k, inv.OutLen, res.Panic, res.Err != nil, desc),
							Case: caseJSON(sh.Index(), map[string]any{"desc": desc, "fault": f}), Detail: r.Describe()})
					}
				}
			}
		}
		sh.C.Nontrivial++
		return true
	})
}

// c10RealGit: removed objects and invalid inputs with the real git.
func c10RealGit(sh *explore.Shard, idx *int64, dir string) {
	r, _ := c08Repo()
	orc := oracle.Compute(r, (&gen.Scenario{Repo: r}).Roots())
	var ids []mrepo.ID
	for _, id := range r.Order {
		if orc.Reach[id] {
			ids = append(ids, id)
		}
	}
	check := func(what string, res cli.Result, args []string) {
		sh.C.Evals++
		sh.C.Nontrivial++
		if !isCleanError(res) {
			class := "invalid-accepted"
			if res.TimedOut {
				class = "hang"
			}
			sh.C.Violate(explore.Violation{Property: "C10", Class: class,
				Msg:  fmt.Sprintf("%s: expected a clean error (non-zero exit, an error message on stderr, empty stdout); got exit %d, %d bytes of stdout, stderr %q [args %v]", what, res.Exit, len(res.Stdout), tailBytes(res.Stderr, 300), args),
				Case: caseJSON(sh.Index(), map[string]any{"what": what, "args": args})})
		}
		sh.C.Outcome("clean-error")
	}
	for _, id := range ids {
		*idx++
		if !sh.Mine(*idx) || sh.Expired() {
			continue
		}
		gd := filepath.Join(dir, "del-"+string(id[:8])+".git")
		if err := realgit.Materialise(r, gd); err != nil {
			continue
		}
		os.Remove(filepath.Join(gd, "objects", string(id[:2]), string(id[2:])))
		for _, args := range [][]string{{"--no-progress"}, {"--no-progress", "--json"}} {
			res := cli.Run(gd, "", nil, 60*time.Second, args...)
			check(fmt.Sprintf("%s %s removed from the object store", r.Objects[id].Kind, id.Short()), res, args)
		}
		os.RemoveAll(gd)
	}
	// invalid inputs
	gd := filepath.Join(dir, "valid.git")
	*idx++
	if sh.Mine(*idx) {
		if err := realgit.Materialise(r, gd); err == nil {
			cfgBase, _ := os.ReadFile(filepath.Join(gd, "config"))
			for _, args := range [][]string{
				{"--no-such-flag"}, {"--threshold=abc"}, {"--names=bogus"}, {"--json", "--json-version=3"}, {"--include", "/(/"},
				{"--include", "@nosuch"}, {"--refgroup", "nosuch"}, {"nosuchrev"}, {"main", "nosuchrev"}, {"--exclude-regexp", "*"},
				{"--include", "@"}, {"-j", "--json-version=0"}, {"--threshold"}, {"0000000000000000000000000000000000000001"},
			} {
				res := cli.Run(gd, "", nil, 60*time.Second, append([]string{"--no-progress"}, args...)...)
				check("invalid option or ROOT", res, args)
			}
			// every boolean-valued option with every kind of value that is no boolean
			for _, o := range []string{"branches", "no-branches", "tags", "no-tags", "remotes", "no-remotes", "notes", "no-notes", "stash", "no-stash",
				"json", "progress", "no-progress", "verbose", "no-verbose", "critical", "show-refs"} {
				for _, v := range []string{"maybe", "2", ""} {
					args := []string{"--" + o + "=" + v}
					res := cli.Run(gd, "", nil, 60*time.Second, append([]string{"--no-progress"}, args...)...)
					check("invalid option or ROOT", res, args)
				}
			}
			for _, c := range []mrepo.ConfigEntry{{Key: "sizer.threshold", Value: "abc"}, {Key: "sizer.names", Value: "bogus"}, {Key: "sizer.progress", Value: "maybe"},
				{Key: "refgroup.bad.includeRegexp", Value: "("}, {Key: "refgroup.empty.name", Value: "no rules"}} {
				os.WriteFile(filepath.Join(gd, "config"), append(append([]byte(nil), cfgBase...), []byte(realgit.ConfigText([]mrepo.ConfigEntry{c}))...), 0o644)
				res := cli.Run(gd, "", nil, 60*time.Second)
				check("invalid configuration "+c.Key+"="+c.Value, res, nil)
			}
			os.WriteFile(filepath.Join(gd, "config"), append(append([]byte(nil), cfgBase...), []byte(realgit.ConfigText([]mrepo.ConfigEntry{{Key: "sizer.jsonVersion", Value: "7"}}))...), 0o644)
			check("invalid sizer.jsonVersion", cli.Run(gd, "", nil, 60*time.Second, "--json", "--no-progress"), []string{"--json"})
			os.WriteFile(filepath.Join(gd, "config"), cfgBase, 0o644)
			// shallow and absent repositories
			os.WriteFile(filepath.Join(gd, "shallow"), []byte(string(r.Refs[0].ID)+"\n"), 0o644)
			check("shallow repository", cli.Run(gd, "", nil, 60*time.Second, "--no-progress"), nil)
			// ... also when addressed through a linked worktree (the marker lives in the common dir)
			wt := filepath.Join(dir, "linked-wt")
			if out, err := realgit.RunPlain(gd, []string{"GIT_DIR=" + gd}, "worktree", "add", "-q", "--detach", wt, string(r.Refs[0].ID)); err == nil {
				check("shallow repository addressed through a linked worktree", cli.Run(wt, "", nil, 60*time.Second, "--no-progress", "HEAD^{tree}"), []string{"HEAD^{tree}"})
				check("shallow repository addressed through a linked worktree", cli.Run(wt, "", nil, 60*time.Second, "--no-progress"), nil)
			} else {
				sh.C.Notes = append(sh.C.Notes, "worktree add failed: "+string(out))
			}
			os.Remove(filepath.Join(gd, "shallow"))
			empty := filepath.Join(dir, "not-a-repo")
			os.MkdirAll(empty, 0o755)
			check("not a repository", cli.Run(empty, "", []string{"GIT_CEILING_DIRECTORIES=" + dir}, 60*time.Second, "--no-progress"), nil)
		}
	}
}

func init() {
	Registry["C10"] = &Check{Level: "fault_enumeration", Worker: c10Worker, QuickBudget: 100 * time.Second, ThoroughBudget: 20 * time.Minute,
		Rule:        "the real binary with the fault-injecting model git first on PATH, 6 scenarios (root kinds x table/JSON v1 with ROOT/JSON v2 with refgroup; merge history verbose and with progress; 3000 references): the fault-free run is recorded, then EVERY single fault of the model is injected in turn: for every git invocation of the run (identified as kind, n-th) exit status 1/128/SIGKILL after its complete output, death after k bytes of stdout for every record boundary and +-1 byte, first, middle and last byte (quick) or every k (thorough), and death after reading j stdin lines for every j. Oracle: exit 0 implies stdout byte-identical to the fault-free report; a fired fault implies non-zero exit, empty stdout, an error message (not a crash trace) on stderr and termination within 60 s; `config --get` exiting 1 is git's 'unset' answer and must not be an error. Every single-split chunking (record boundaries +-1 byte) of every output stream with per-record flushing and no fault must give the fault-free report; thorough adds every pair of simultaneous faults among the scanning pipelines' invocations at record granularity (first two scenarios). In-process (widening the scenario set): every 41st (7th) repository of the mixed family x every invocation x EVERY byte position x exit 1/SIGKILL must return an error and never panic. With real git: every reachable object removed in turn, 14 invalid option/ROOT vectors plus every boolean-valued option with 3 non-boolean values, 6 invalid configurations, shallow and absent repository must give a clean error. non-trivial = every injected fault",
		Assumptions: []string{"single faults in quick; pairs only among rev-list / cat-file invocations at record granularity in thorough", "the model git's death is an exit status or a signal after a prefix of its correct output"}}
}
