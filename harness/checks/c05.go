package checks

import (
	"encoding/json"
	"fmt"
	"math/bits"
	"os"
	"sort"
	"strings"
	"time"

	"github.com/github/git-sizer/counts"
	"github.com/github/git-sizer/sizes"

	"verif/explore"
	"verif/gen"
	"verif/inproc"
	"verif/modelgit"
	"verif/mrepo"
	"verif/oracle"
)

// capacities of the counters in THIS build (the narrowed build has 2^8-1 / 2^16-1)
var cap32 = uint64(^counts.Count32(0))
var cap64 = uint64(^counts.Count64(0))

func narrowBuild() bool { return cap32 < 1<<32-1 }

func boundaryAlphabet(cap uint64) []uint64 {
	set := map[uint64]struct{}{}
	add := func(v uint64) {
		if v <= cap {
			set[v] = struct{}{}
		}
	}
	for _, v := range []uint64{0, 1, 2, 3} {
		add(v)
		add(cap - v)
	}
	for k := uint(1); k < 64; k++ {
		p := uint64(1) << k
		if p > cap {
			break
		}
		add(p - 1)
		add(p)
		add(p + 1)
	}
	add(cap / 2)
	add(cap/2 + 1)
	add(cap / 3)
	out := make([]uint64, 0, len(set))
	for v := range set {
		out = append(out, v)
	}
	sort.Slice(out, func(i, j int) bool { return out[i] < out[j] })
	return out
}

func satAdd(a, b, cap uint64) uint64 {
	s, c := bits.Add64(a, b, 0)
	if c != 0 || s > cap {
		return cap
	}
	return s
}

// c05Arith checks the arithmetic law on every operand pair of the value set.
func c05Arith(sh *explore.Shard, idx *int64) {
	var v32, v64 []uint64
	exhaustive := cap32 <= 0xffff
	if exhaustive {
		for v := uint64(0); v <= cap32; v++ {
			v32 = append(v32, v)
		}
		full64 := sh.Tier == "thorough"
		if full64 {
			for v := uint64(0); v <= cap64; v++ {
				v64 = append(v64, v)
			}
		} else {
			// quick: all pairs over a dense low range plus the whole top range
			for v := uint64(0); v <= cap64; v++ {
				if v < 600 || v > cap64-600 || v%257 == 0 || v%255 == 0 {
					v64 = append(v64, v)
				}
			}
		}
	} else {
		v32 = boundaryAlphabet(cap32)
		v64 = boundaryAlphabet(cap64)
	}
	bad := func(what string, a, b, got, want uint64) {
		sh.C.Violate(explore.Violation{Property: "C05", Class: "arith",
			Msg:  fmt.Sprintf("%s(%d, %d) = %d, expected %d (capacity %d/%d build)", what, a, b, got, want, cap32, cap64),
			Case: caseJSON(sh.Index(), map[string]any{"op": what, "a": a, "b": b})})
	}
	// 32-bit type
	for _, a := range v32 {
		*idx++
		if !sh.Mine(*idx) {
			continue
		}
		if sh.Expired() {
			return
		}
		for _, b := range v32 {
			x, y := counts.Count32(a), counts.Count32(b)
			want := satAdd(a, b, cap32)
			if got := uint64(x.Plus(y)); got != want {
				bad("Count32.Plus", a, b, got, want)
			}
			z := x
			z.Increment(y)
			if uint64(z) != want {
				bad("Count32.Increment", a, b, uint64(z), want)
			}
			mx := a
			if b > a {
				mx = b
			}
			z = x
			r := z.AdjustMaxIfNecessary(y)
			if uint64(z) != mx || r != (b > a) {
				bad("Count32.AdjustMaxIfNecessary", a, b, uint64(z), mx)
			}
			z = x
			r = z.AdjustMaxIfPossible(y)
			if uint64(z) != mx || (r && b < a) || (!r && b > a) {
				bad("Count32.AdjustMaxIfPossible", a, b, uint64(z), mx)
			}
			sh.C.Evals += 4
		}
		u, of := counts.Count32(a).ToUint64()
		if u != a || of != (a == cap32) {
			bad("Count32.ToUint64", a, 0, u, a)
		}
		sh.C.Nontrivial++
	}
	for _, a := range v64 {
		*idx++
		if !sh.Mine(*idx) {
			continue
		}
		if sh.Expired() {
			return
		}
		for _, b := range v64 {
			x, y := counts.Count64(a), counts.Count64(b)
			want := satAdd(a, b, cap64)
			if got := uint64(x.Plus(y)); got != want {
				bad("Count64.Plus", a, b, got, want)
			}
			z := x
			z.Increment(y)
			if uint64(z) != want {
				bad("Count64.Increment", a, b, uint64(z), want)
			}
			mx := a
			if b > a {
				mx = b
			}
			z = x
			r := z.AdjustMaxIfNecessary(y)
			if uint64(z) != mx || r != (b > a) {
				bad("Count64.AdjustMaxIfNecessary", a, b, uint64(z), mx)
			}
			z = x
			r = z.AdjustMaxIfPossible(y)
			if uint64(z) != mx || (r && b < a) || (!r && b > a) {
				bad("Count64.AdjustMaxIfPossible", a, b, uint64(z), mx)
			}
			sh.C.Evals += 4
		}
		u, of := counts.Count64(a).ToUint64()
		if u != a || of != (a == cap64) {
			bad("Count64.ToUint64", a, 0, u, a)
		}
		sh.C.Nontrivial++
	}
	// NewCount32 clamps wide inputs
	wide := boundaryAlphabet(^uint64(0))
	if exhaustive {
		for v := uint64(0); v <= 0xffff; v++ {
			wide = append(wide, v)
		}
	}
	*idx++
	if sh.Mine(*idx) {
		for _, w := range wide {
			want := w
			if want > cap32 {
				want = cap32
			}
			if got := uint64(counts.NewCount32(w)); got != want {
				bad("NewCount32", w, 0, got, want)
			}
			sh.C.Evals++
		}
	}
	sh.C.Sample(1, map[string]any{"part": "arithmetic", "capacity32": cap32, "capacity64": cap64, "values32": len(v32), "values64": len(v64), "all_pairs": true})
}

// bomb builds a doubling chain: leaf tree with `fan` leaf entries, then depth
// levels each holding `fan` entries that all point at the level below.
func bomb(depth, fan int, leaf byte, blobSize uint64) (*mrepo.Repo, mrepo.ID) {
	return bombF(depth, fan, leaf, blobSize, false)
}

// bombF: withFile additionally puts one file "z" (sorting after the
// subdirectories) into every non-leaf level.
func bombF(depth, fan int, leaf byte, blobSize uint64, withFile bool) (*mrepo.Repo, mrepo.ID) {
	r := mrepo.New()
	var blob mrepo.ID
	if blobSize <= 4096 {
		blob = r.AddBlob(make([]byte, blobSize))
	} else {
		blob = r.AddVirtualBlob("big", blobSize)
	}
	var es []mrepo.Entry
	for i := 0; i < fan; i++ {
		name := fmt.Sprintf("f%d", i)
		switch leaf {
		case 'f':
			es = append(es, mrepo.Entry{Mode: 0o100644, Name: name, Child: blob})
		case 'l':
			es = append(es, mrepo.Entry{Mode: 0o120000, Name: name, Child: blob})
		case 's':
			es = append(es, mrepo.Entry{Mode: 0o160000, Name: name, Child: mrepo.ID("1234567890123456789012345678901234567890")})
		case 'm':
			// mixed leaf: one file, one symlink and one submodule per index, so that
			// several counters approach their capacity together (at equal pace)
			es = append(es, mrepo.Entry{Mode: 0o100644, Name: name, Child: blob},
				mrepo.Entry{Mode: 0o120000, Name: "l" + name, Child: blob},
				mrepo.Entry{Mode: 0o160000, Name: "s" + name, Child: mrepo.ID("1234567890123456789012345678901234567890")})
		}
	}
	cur := r.AddTree(es)
	for d := 0; d < depth; d++ {
		var ds []mrepo.Entry
		for i := 0; i < fan; i++ {
			ds = append(ds, mrepo.Entry{Mode: 0o40000, Name: fmt.Sprintf("d%d", i), Child: cur})
		}
		if withFile {
			ds = append(ds, mrepo.Entry{Mode: 0o100644, Name: "z", Child: blob})
		}
		cur = r.AddTree(ds)
	}
	c := r.AddCommit(mrepo.CommitSpec{Tree: cur, Time: gen.T0, Message: "bomb\n"})
	r.SetRef("refs/heads/main", c)
	return r, cur
}

var renderLabels = map[string]string{
	"max_expanded_tree_count":      "Number of directories",
	"max_expanded_blob_count":      "Number of files",
	"max_expanded_blob_size":       "Total size of files",
	"max_expanded_link_count":      "Number of symlinks",
	"max_expanded_submodule_count": "Number of submodules",
	"max_path_depth":               "Maximum path depth",
	"max_path_length":              "Maximum path length",
}

var v2Symbols = map[string]string{
	"max_expanded_tree_count":      "maxCheckoutTreeCount",
	"max_expanded_blob_count":      "maxCheckoutBlobCount",
	"max_expanded_blob_size":       "maxCheckoutBlobSize",
	"max_expanded_link_count":      "maxCheckoutLinkCount",
	"max_expanded_submodule_count": "maxCheckoutSubmoduleCount",
	"max_path_depth":               "maxCheckoutPathDepth",
	"max_path_length":              "maxCheckoutPathLength",
	"unique_blob_size":             "uniqueBlobSize",
	"unique_blob_count":            "uniqueBlobCount",
	"unique_tree_count":            "uniqueTreeCount",
	"unique_tree_size":             "uniqueTreeSize",
	"unique_tree_entries":          "uniqueTreeEntries",
	"unique_commit_count":          "uniqueCommitCount",
	"unique_commit_size":           "uniqueCommitSize",
	"unique_tag_count":             "uniqueTagCount",
	"max_commit_size":              "maxCommitSize",
	"max_parent_count":             "maxCommitParentCount",
	"max_tree_entries":             "maxTreeEntries",
	"max_blob_size":                "maxBlobSize",
	"max_history_depth":            "maxHistoryDepth",
	"max_tag_depth":                "maxTagDepth",
}

func is64Key(k string) bool {
	switch k {
	case "unique_commit_size", "unique_tree_size", "unique_tree_entries", "unique_blob_size", "max_expanded_blob_size":
		return true
	}
	return false
}

// c05Scan scans one scenario and compares every numeric key with
// min(true, capacity); it recognises the known size-clamp defect precisely.
func c05Scan(sh *explore.Shard, sc *gen.Scenario, render bool) {
	c05ScanOrder(sh, sc, render, nil)
}

func c05ScanOrder(sh *explore.Shard, sc *gen.Scenario, render bool, order []mrepo.ID) {
	install()
	env := modelgit.NewEnv(sc.Repo, &modelgit.Plan{ListOrder: order})
	res := inproc.Scan(env, inproc.SimpleGrouper{Walk: sc.Walks}, sc.Explicit, sizes.NameStyleNone, nil)
	sh.C.Evals++
	mk := func(class, msg string) {
		sh.C.Violate(explore.Violation{Property: "C05", Class: class, Msg: msg + " [" + sc.Desc + "]",
			Case: caseJSON(sh.Index(), map[string]any{"desc": sc.Desc})})
	}
	if res.Panic != nil {
		mk("panic", fmt.Sprintf("scan panicked: %v", res.Panic))
		return
	}
	if res.Err != nil {
		class := "error"
		if strings.Contains(res.Err.Error(), "object size improperly formatted") {
			// a reference that points directly at an object of 2^32 bytes or more
			for _, ref := range sc.Repo.Refs {
				if o := sc.Repo.Objects[ref.ID]; o != nil && o.Size > 1<<32-1 && !narrowBuild() {
					class = "C05-ref-size32"
				}
			}
		}
		mk(class, fmt.Sprintf("scan failed: %v", res.Err))
		return
	}
	got := inproc.Numbers(&res.HS)
	orc := oracle.Compute(sc.Repo, sc.Roots())
	want := orc.NumbersCapped(cap32, cap64)
	var diffs []string
	for _, k := range allNumericKeys() {
		if got[k] != want[k] {
			diffs = append(diffs, fmt.Sprintf("%s: reported %d, min(true, capacity) = %d", k, got[k], want[k]))
		}
	}
	if len(diffs) > 0 {
		// defect model: every object size is clamped to the 32-bit capacity
		// before entering a total; applies only if some reachable object is
		// that large, and only if the observation equals the model's prediction
		big := false
		for id := range orc.Reach {
			if sc.Repo.Objects[id].Size > cap32 {
				big = true
			}
		}
		class := "mismatch"
		if big {
			alt := oracle.ComputeOpt(sc.Repo, sc.Roots(), cap32).NumbersCapped(cap32, cap64)
			same := true
			for _, k := range allNumericKeys() {
				if got[k] != alt[k] {
					same = false
				}
			}
			if same {
				class = "C05-size32"
			}
		}
		mk(class, strings.Join(diffs, "; "))
	}
	anySat := false
	var sig strings.Builder
	for _, k := range allNumericKeys() {
		c := cap32
		if is64Key(k) {
			c = cap64
		}
		if want[k] == c {
			anySat = true
			sig.WriteString(k + ",")
		}
	}
	sh.C.Outcome("saturated:" + sig.String())
	if anySat {
		sh.C.Nontrivial++
	}
	if !render || narrowBuild() {
		return
	}
	// rendering of saturated quantities: infinity sign, capacity in JSON, top concern at every threshold
	j2, err := res.HS.JSON(nil, 1, sizes.NameStyleNone)
	if err != nil {
		mk("render", "JSON v2 failed: "+err.Error())
		return
	}
	var items map[string]struct {
		Value uint64 `json:"value"`
	}
	if err := json.Unmarshal(j2, &items); err != nil {
		mk("render", "JSON v2 invalid: "+err.Error())
		return
	}
	j1, _ := json.Marshal(res.HS)
	nums1, _, _ := parseV1(j1)
	for _, k := range allNumericKeys() {
		c := cap32
		if is64Key(k) {
			c = cap64
		}
		if got[k] != c {
			continue
		}
		if nums1[k] != c {
			mk("render", fmt.Sprintf("JSON v1 %s = %d for a saturated quantity, expected the capacity %d", k, nums1[k], c))
		}
		if sym := v2Symbols[k]; sym != "" && items[sym].Value != c {
			mk("render", fmt.Sprintf("JSON v2 %s.value = %d for a saturated quantity, expected the capacity %d", sym, items[sym].Value, c))
		}
		label, ok := renderLabels[k]
		if !ok {
			continue
		}
		for _, th := range []sizes.Threshold{0, 1, 30, 1e9} {
			tab := res.HS.TableString(nil, th, sizes.NameStyleNone)
			found := false
			for _, line := range strings.Split(tab, "\n") {
				if strings.Contains(line, label) {
					found = true
					if !strings.Contains(line, "∞") || !strings.Contains(line, strings.Repeat("!", 30)) {
						mk("render", fmt.Sprintf("saturated %s rendered as %q at threshold %v", k, line, th))
					}
				}
			}
			if !found {
				mk("render", fmt.Sprintf("saturated %s has no table row at threshold %v", k, th))
			}
			sh.C.Evals++
		}
	}
}

func c05Worker(sh *explore.Shard) {
	var idx int64
	c05Arith(sh, &idx)
	// bombs
	maxDepth := 70
	sizesAlpha := []uint64{1, 1 << 31, 1<<32 - 2, 1<<32 - 1, 1 << 32, 1<<32 + 1, 1 << 40, 1 << 63}
	if narrowBuild() {
		maxDepth = 20
		sizesAlpha = []uint64{1, 127, 254, 255, 256, 257, 300, 4000}
	}
	for d := 0; d <= maxDepth; d++ {
		for fan := 1; fan <= 3; fan++ {
			for _, leaf := range []byte{'f', 'l', 's', 'm'} {
				for _, bs := range sizesAlpha {
					if (leaf == 's' || leaf == 'm') && bs != sizesAlpha[0] {
						continue
					}
					if leaf == 'm' && fan == 3 && narrowBuild() {
						continue // the 9-entry leaf tree is longer than the narrowed size counter can express
					}
					if leaf == 'l' && bs > 4096 {
						continue
					}
					idx++
					if !sh.Mine(idx) {
						continue
					}
					if sh.Expired() {
						return
					}
					r, _ := bomb(d, fan, leaf, bs)
					sc := &gen.Scenario{Repo: r, Desc: fmt.Sprintf("bomb depth=%d fan=%d leaf=%c blob=%d", d, fan, leaf, bs)}
					c05Scan(sh, sc, true)
					if leaf == 'f' {
						// a file beside the subdirectories at every level, delivered in
						// git's order (parents first) and children-first: a count that is
						// already saturated, or crosses the capacity, when the file is added
						r2, _ := bombF(d, fan, leaf, bs, true)
						sc2 := &gen.Scenario{Repo: r2, Desc: fmt.Sprintf("bomb+file depth=%d fan=%d blob=%d", d, fan, bs)}
						c05Scan(sh, sc2, false)
						l := defaultListing(sc2)
						sc2.Desc += " children-first"
						c05ScanOrder(sh, sc2, false, reverseNonCommits(r2, l))
					}
					if d == 40 && fan == 2 && leaf == 'f' && bs == sizesAlpha[1] {
						sh.C.Sample(3, map[string]any{"part": "bomb", "desc": sc.Desc, "distinct_objects": len(r.Objects)})
					}
				}
			}
		}
	}
	// sums over many objects: several large blobs in one tree, and a reference
	// pointing directly at a large blob
	for nb := 1; nb <= 5; nb++ {
		for _, bs := range sizesAlpha {
			for _, direct := range []bool{false, true} {
				idx++
				if !sh.Mine(idx) {
					continue
				}
				r := mrepo.New()
				var es []mrepo.Entry
				var first mrepo.ID
				for b := 0; b < nb; b++ {
					var id mrepo.ID
					if bs <= 4096 {
						id = r.AddBlob([]byte(strings.Repeat(string(rune('a'+b)), int(bs))))
					} else {
						id = r.AddVirtualBlob(fmt.Sprintf("b%d", b), bs)
					}
					if b == 0 {
						first = id
					}
					es = append(es, mrepo.Entry{Mode: 0o100644, Name: fmt.Sprintf("f%d", b), Child: id})
				}
				t := r.AddTree(es)
				c := r.AddCommit(mrepo.CommitSpec{Tree: t, Time: gen.T0, Message: "sum\n"})
				r.SetRef("refs/heads/main", c)
				if direct {
					r.SetRef("refs/tags/blob", first)
				}
				sc := &gen.Scenario{Repo: r, Desc: fmt.Sprintf("sum blobs=%d size=%d direct_ref=%v", nb, bs, direct)}
				c05Scan(sh, sc, true)
			}
		}
	}
	// linear time: the depth-64 fan-out-2 bomb has 2^64 expanded files but 67
	// distinct objects; each must be requested from cat-file --batch exactly once
	if !narrowBuild() {
		idx++
		if sh.Mine(idx) {
			r, _ := bomb(64, 2, 'f', 1)
			sc := &gen.Scenario{Repo: r, Desc: "linear-time bomb depth=64 fan=2"}
			install()
			env := modelgit.NewEnv(r, &modelgit.Plan{})
			start := time.Now()
			res := inproc.Scan(env, inproc.SimpleGrouper{Walk: sc.Walks}, nil, sizes.NameStyleFull, nil)
			sh.C.Evals++
			served := map[string]int{}
			for _, inv := range res.Log {
				if inv.Kind == modelgit.KBatch || inv.Kind == modelgit.KBatchCheck {
					for _, s := range inv.Served {
						served[inv.Kind+s]++
					}
				}
			}
			for k, n := range served {
				if n != 1 {
					sh.C.Violate(explore.Violation{Property: "C05", Class: "linear", Msg: fmt.Sprintf("object %s requested %d times", k, n), Case: caseJSON(idx, nil)})
				}
			}
			nonBlob := 0
			for _, o := range r.Objects {
				if o.Kind != mrepo.Blob {
					nonBlob++
				}
			}
			if res.Err != nil || res.Panic != nil || len(served) != len(r.Objects)+nonBlob {
				sh.C.Violate(explore.Violation{Property: "C05", Class: "linear", Msg: fmt.Sprintf("bomb scan: err=%v panic=%v requests=%d distinct objects=%d", res.Err, res.Panic, len(served), len(r.Objects)), Case: caseJSON(idx, nil)})
			}
			sh.C.Add("linear_bomb_requests", int64(len(served)))
			sh.C.Add("linear_bomb_micros", time.Since(start).Microseconds())
			sh.C.Nontrivial++
		}
	}
	// in the narrowed build additionally the whole C04 tree-DAG family: the
	// aggregation composes the 8/16-bit arithmetic
	if narrowBuild() {
		// (objects that are themselves read through cat-file --batch must stay
		// below the narrowed 32-bit capacity, as a 4 GiB tree or commit is not a
		// realistic input at real width; only blob sizes straddle it)
		_, al := treeAlphabet("quick")
		al.Leaves = "bcls"
		gen.TreeDAGs(3, al, func(r *mrepo.Repo, lv gen.Leaves, trees []mrepo.ID) bool {
			idx++
			if !sh.Mine(idx) {
				return true
			}
			if sh.Expired() {
				return false
			}
			sc := treeScenario(r, trees, false)
			sc.Desc = fmt.Sprintf("narrow treedag #%d", idx)
			c05Scan(sh, sc, false)
			return true
		})
	}
}

// c05Parent runs the real-width workers, then the same worker code in the
// width-narrowed build (counts.go overlaid with 8/16-bit types).
func c05Parent(prop, tier string) int {
	start := time.Now()
	ck := Registry["C05"]
	budget := ck.QuickBudget
	if tier == "thorough" {
		budget = ck.ThoroughBudget
	}
	total, crashes, err := explore.RunSharded(explore.Options{Property: prop, Tier: tier, Shards: 16, Budget: budget, Horizon: budget + 30*time.Minute})
	if err != nil {
		fmt.Println("HARNESS-ERROR:", err)
		return 2
	}
	narrowExe := "/verif/.build/vcheck-narrow"
	if _, err := os.Stat(narrowExe); err != nil {
		fmt.Println("HARNESS-ERROR: narrowed build missing:", err)
		return 2
	}
	t2, c2, err := explore.RunSharded(explore.Options{Property: prop, Tier: tier, Shards: 16, Budget: budget, Horizon: budget + 30*time.Minute, Exe: narrowExe})
	if err != nil {
		fmt.Println("HARNESS-ERROR:", err)
		return 2
	}
	t2.Add("narrow_build_evaluations", t2.Evals)
	total.Merge(t2)
	if !t2.Exhaustive {
		total.Exhaustive = false
	}
	for _, c := range c2 {
		fmt.Printf("HARNESS-NOTE: narrowed-build worker %d died on case %d: %s\n%s\n", c.Shard, c.Case, c.Exit, c.Stderr)
		total.Violate(explore.Violation{Property: prop, Class: "crash-narrow", Msg: fmt.Sprintf("narrowed-build worker died on case %d: %s", c.Case, c.Exit), Case: caseJSON(c.Case, nil), Detail: c.Stderr})
	}
	ck2 := *ck
	ck2.Parent = nil
	return Finish("/verif", prop, tier, &ck2, total, crashes, start)
}

func init() {
	Registry["C05"] = &Check{Level: "exploration", Worker: c05Worker, Parent: c05Parent, QuickBudget: 60 * time.Second, ThoroughBudget: 10 * time.Minute,
		Rule:        "(1) arithmetic law on ALL operand pairs of the 8-bit copy and (thorough) all 2^32 pairs of the 16-bit copy of counts.go (generated from the current file, overlaid into the whole program), and on the complete cross product of a boundary alphabet at real width; (2) bomb family depth 0..70 x fan-out 1..3 x leaf kind (files, symlinks, submodules, all three at equal pace) x blob size straddling 2^32 (virtual blobs), sums of 1..5 large blobs, scanned in-process and compared key by key with min(true, capacity); the narrowed build additionally scans every tree DAG of the C04 quick family; (3) every saturated quantity must render as the infinity sign with 30 exclamation marks at thresholds 0,1,30,1e9 and as the capacity in JSON v1/v2; (4) the depth-64 bomb must request each distinct object exactly once. non-trivial = operand value rows / scenarios in which at least one quantity saturates",
		Assumptions: []string{"the narrowed copy changes only the two type definitions and the MaxUint constants of counts.go", "virtual blobs: git-sizer never reads blob contents, only the size column"}}
}
