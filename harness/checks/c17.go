package checks

import (
	"bytes"
	"crypto/sha256"
	"encoding/hex"
	"encoding/json"
	"fmt"
	"io"
	"io/fs"
	"os"
	"os/exec"
	"path/filepath"
	"sort"
	"strings"
	"syscall"
	"time"

	"github.com/github/git-sizer/meter"
	"github.com/github/git-sizer/sizes"
	"verifsched"

	"verif/cli"
	"verif/explore"
	"verif/gen"
	"verif/inproc"
	"verif/modelgit"
	"verif/mrepo"
	"verif/oracle"
	"verif/realgit"
)

// ---------------------------------------------------------------- part 2: schedules of the pipelines

func c17Repo() *mrepo.Repo {
	r := mrepo.New()
	lv := gen.AddLeaves(r)
	t0 := r.AddTree([]mrepo.Entry{{Mode: 0o100644, Name: "a", Child: lv.BlobA}})
	t1 := r.AddTree([]mrepo.Entry{{Mode: 0o40000, Name: "d", Child: t0}, {Mode: 0o100644, Name: "b", Child: lv.BlobA}})
	c := r.AddCommit(mrepo.CommitSpec{Tree: t1, Time: gen.T0, Message: "c\n"})
	tg := r.AddTag(mrepo.TagSpec{Target: c, Name: "v", Time: gen.T0, Message: "v\n"})
	r.SetRef("refs/heads/main", c)
	r.SetRef("refs/tags/v", tg)
	return r
}

type c17Body struct {
	name  string
	repo  *mrepo.Repo
	plan  modelgit.Plan
	fault bool
	// progress: scan with the real progress meter (its ticker goroutines and
	// tick threads join the schedule); the result must not depend on it
	progress bool
	// explicit ROOT arguments (name, id)
	explicit [][2]string
}

func c17Bodies(tier string) []c17Body {
	r := c17Repo()
	bs := []c17Body{
		{"scan, whole records", r, modelgit.Plan{}, false, false, nil},
		{"scan, output in 7-byte writes, cat-file flushing every record", r, modelgit.Plan{Chunk: 7, FlushEvery: 1}, false, false, nil},
		{"scan with the real progress meter running", r, modelgit.Plan{}, false, true, nil},
	}
	if tg, ok := r.RefID("refs/tags/v"); ok {
		bs = append(bs, c17Body{"scan with a ROOT argument naming the annotated tag", r, modelgit.Plan{}, false, false, [][2]string{{"v", string(tg)}}})
	}
	// more blobs than any batching threshold one might think of, with two
	// equal maximal blobs next to each other in the listing (positions 1024/1025)
	big := mrepo.New()
	var es []mrepo.Entry
	for i := 0; i < 1030; i++ {
		content := fmt.Sprintf("%04d", i)
		if i == 1023 || i == 1024 {
			content = fmt.Sprintf("%04d-maximal", i)
		}
		es = append(es, mrepo.Entry{Mode: 0o100644, Name: fmt.Sprintf("f%04d", i), Child: big.AddBlob([]byte(content))})
	}
	bc := big.AddCommit(mrepo.CommitSpec{Tree: big.AddTree(es), Time: gen.T0, Message: "many blobs\n"})
	big.SetRef("refs/heads/main", bc)
	bs = append(bs, c17Body{"scan of 1030 blobs with two equal maxima at listing positions 1024 and 1025", big, modelgit.Plan{}, false, false, nil})
	for _, f := range []modelgit.Fault{
		{Kind: modelgit.KRevList, StdoutBytes: 45, StdinLines: -1, Exit: 128},
		{Kind: modelgit.KRevList, StdoutBytes: -1, StdinLines: 1, Exit: 128},
		{Kind: modelgit.KBatchCheck, StdoutBytes: 60, StdinLines: -1, Exit: 1},
		{Kind: modelgit.KBatch, StdoutBytes: 100, StdinLines: -1, Exit: -9},
		{Kind: modelgit.KBatch, StdoutBytes: -1, StdinLines: -1, AtExit: true, Exit: 1},
		{Kind: modelgit.KForEachRef, StdoutBytes: 70, StdinLines: -1, Exit: 128},
	} {
		bs = append(bs, c17Body{fmt.Sprintf("scan with fault %s stdout=%d stdin=%d atexit=%v exit=%d", f.Kind, f.StdoutBytes, f.StdinLines, f.AtExit, f.Exit), r, modelgit.Plan{Faults: []modelgit.Fault{f}}, true, false, nil})
	}
	return bs
}

func c17Sched(sh *explore.Shard) {
	install()
	for bi, b := range c17Bodies(sh.Tier) {
		b := b
		bound := 2
		if sh.Tier == "thorough" {
			bound = 3
		}
		if sh.Tier != "thorough" && b.fault {
			bound = 1
		}
		if len(b.repo.Objects) > 1000 {
			bound = 1
		}
		sc := &gen.Scenario{Repo: b.repo, Explicit: b.explicit}
		want := oracle.Compute(b.repo, sc.Roots()).Numbers()
		var res inproc.Result
		body := func() {
			plan := b.plan
			var pm meter.Progress
			if b.progress {
				pm = meter.NewProgressMeter(io.Discard, time.Hour)
			}
			res = inproc.Scan(modelgit.NewEnv(b.repo, &plan), inproc.SimpleGrouper{Walk: sc.Walks}, b.explicit, sizes.NameStyleFull, pm)
		}
		if b.progress {
			bound = 1
			if sh.Tier == "thorough" {
				bound = 2
			}
		}
		observe := func() string {
			if res.Panic != nil {
				return fmt.Sprintf("panic: %v", res.Panic)
			}
			if res.Err != nil {
				return "error"
			}
			j, _ := json.Marshal(res.HS)
			return string(j)
		}
		probe := verifsched.Run(body, nil, verifsched.Sched{DelaySpawns: true})
		if len(probe.Points) == 0 {
			if sh.I == 0 && bi == 0 {
				sh.C.Violate(explore.Violation{Property: "C17", Class: "HARNESS/not-sched-build", Msg: "the pipelines are not routed through the scheduler in this build", Case: caseJSON(0, nil)})
			}
			return
		}
		first := observe()
		verifsched.Run(body, probe.Choices, verifsched.Sched{DelaySpawns: true})
		if observe() != first && sh.I == 0 {
			sh.C.Violate(explore.Violation{Property: "C17", Class: "HARNESS/replay", Msg: "replaying the default schedule gave a different observation", Case: caseJSON(0, nil)})
		}
		outcomes := map[string]bool{}
		check := func(x *verifsched.Sched) string {
			o := observe()
			outcomes[o] = true
			switch {
			case strings.HasPrefix(o, "panic"):
				return o
			case b.fault:
				if o != "error" {
					return "a git subprocess failed but the scan returned a result in this schedule"
				}
			default:
				if o == "error" {
					return "the scan failed in this schedule: " + res.Err.Error()
				}
				got := inproc.Numbers(&res.HS)
				for _, k := range allNumericKeys() {
					if got[k] != want[k] {
						return fmt.Sprintf("%s = %d in this schedule, expected %d", k, got[k], want[k])
					}
				}
				if o != first {
					return "the result (including cited objects and descriptions) differs from the default schedule's"
				}
			}
			return ""
		}
		ex := &verifsched.Explorer{Body: body, Cfg: verifsched.Sched{DelaySpawns: true}, Bound: bound, ShardI: sh.I, ShardN: sh.N, Stop: sh.Expired, Check: check}
		if sh.Only >= 0 {
			ex.ShardI, ex.ShardN = 0, 1
		}
		ex.Run()
		sh.C.Evals += ex.Executions
		sh.C.Nontrivial += ex.Deviating
		sh.C.Transitions += ex.Transitions
		sh.C.States += int64(len(outcomes))
		for o := range outcomes {
			if len(o) > 40 {
				o = o[:40]
			}
			sh.C.Outcome(fmt.Sprintf("%d:%s", bi, o))
		}
		if ex.Capped {
			sh.C.CapsHit = append(sh.C.CapsHit, "time budget reached in body "+b.name)
			sh.C.Exhaustive = false
		}
		for _, v := range ex.Violations {
			verifsched.Run(body, v.Choices, verifsched.Sched{DelaySpawns: true})
			o1 := observe()
			verifsched.Run(body, v.Choices, verifsched.Sched{DelaySpawns: true})
			class := "schedule"
			if o1 != observe() || strings.HasPrefix(v.Msg, "HARNESS") {
				class = "HARNESS/unstable-replay"
			}
			sh.C.Violate(explore.Violation{Property: "C17", Class: class, Confirmed: class == "schedule", Msg: fmt.Sprintf("%s [%s, schedule %v]", v.Msg, b.name, v.Choices),
				Case: caseJSON(int64(bi), map[string]any{"body": b.name, "schedule": v.Choices, "bound": bound})})
		}
		if sh.I == 0 {
			sh.C.Sample(4, map[string]any{"body": b.name, "bound": bound, "scheduling_points_default_run": len(probe.Points), "threads": "main, feeders, pipeline stage goroutines, model git processes"})
		}
	}
}

// ---------------------------------------------------------------- part 1: read-only

type fileState struct {
	Mode  fs.FileMode
	Size  int64
	Mtime int64
	Sum   string
}

func snapshot(root string) map[string]fileState {
	out := map[string]fileState{}
	filepath.Walk(root, func(p string, info fs.FileInfo, err error) error {
		if err != nil {
			return nil
		}
		rel, _ := filepath.Rel(root, p)
		st := fileState{Mode: info.Mode(), Size: info.Size(), Mtime: info.ModTime().UnixNano()}
		if info.IsDir() {
			st.Size = 0
		}
		if info.Mode().IsRegular() {
			b, _ := os.ReadFile(p)
			h := sha256.Sum256(b)
			st.Sum = hex.EncodeToString(h[:8])
		} else if info.Mode()&fs.ModeSymlink != 0 {
			st.Sum, _ = os.Readlink(p)
		}
		out[rel] = st
		return nil
	})
	return out
}

func diffSnap(a, b map[string]fileState) string {
	var d []string
	for k, v := range a {
		w, ok := b[k]
		if !ok {
			d = append(d, "removed: "+k)
		} else if v != w {
			d = append(d, fmt.Sprintf("changed: %s (%v -> %v)", k, v, w))
		}
	}
	for k := range b {
		if _, ok := a[k]; !ok {
			d = append(d, "created: "+k)
		}
	}
	sort.Strings(d)
	return strings.Join(d, "; ")
}

func c17ReadOnly(sh *explore.Shard) {
	var idx int64 = 1 << 21
	bases := c13Bases()
	modes := c13Modes()
	// a third repository: three consecutive commits whose root trees exceed 64 kiB (read buffers)
	{
		r := mrepo.New()
		lv := gen.AddLeaves(r)
		var prev mrepo.ID
		ids := map[string]mrepo.ID{}
		for cidx := 0; cidx < 3; cidx++ {
			var es []mrepo.Entry
			for i := 0; i < 2100; i++ {
				child := lv.BlobA
				if i == cidx {
					child = lv.BlobC
				}
				es = append(es, mrepo.Entry{Mode: 0o100644, Name: fmt.Sprintf("file-with-a-long-name-%05d", i), Child: child})
			}
			sub := r.AddTree([]mrepo.Entry{{Mode: 0o100644, Name: "a", Child: lv.BlobA}})
			es = append(es, mrepo.Entry{Mode: 0o40000, Name: "d", Child: sub})
			var ps []mrepo.ID
			if prev != "" {
				ps = []mrepo.ID{prev}
			}
			prev = r.AddCommit(mrepo.CommitSpec{Tree: r.AddTree(es), Parents: ps, Time: gen.T0 + int64(cidx)*100, Message: fmt.Sprintf("big %d\n", cidx)})
			if cidx == 0 {
				ids["c0"] = prev
			}
		}
		r.SetRef("refs/heads/main", prev)
		r.SetRef("refs/tags/ta", r.AddTag(mrepo.TagSpec{Target: prev, Name: "ta", Time: gen.T0, Message: "t\n"}))
		r.Head = "ref: refs/heads/main"
		bases = append(bases, c13Base{r, ids})
	}
	argSets := [][]string{{"--no-progress"}, {"-v", "--no-progress"}, {"--json", "--no-progress", "main", "ta", "main~1"}, {"--json", "--progress"}, {"-v", "--no-progress", "--names=hash", "main"}, {"--json", "--json-version=2", "--no-progress", "--include", "refs/tags"}, {"--no-progress", "--show-refs", "--branches"}}
	for bi, b := range bases {
		for ai, args := range argSets {
			idx++
			if !sh.Mine(idx) || sh.Expired() {
				continue
			}
			dir := scratch("c17")
			work := filepath.Join(dir, "work")
			gd := filepath.Join(work, ".git")
			stored := *b.repo
			stored.Config = []mrepo.ConfigEntry{{Key: "refgroup.ga.include", Value: "refs/heads"}, {Key: "refgroup.gb.include", Value: "refs/tags"}, {Key: "refgroup.gc.include", Value: "refs"}, {Key: "refgroup.gd.includeRegexp", Value: ".*a.*"}}
			setupOK := realgit.Materialise(&stored, gd) == nil
			if setupOK {
				cfg, _ := os.ReadFile(filepath.Join(gd, "config"))
				os.WriteFile(filepath.Join(gd, "config"), bytes.Replace(cfg, []byte("bare = true"), []byte("bare = false"), 1), 0o644)
				_, e1 := realgit.RunPlain(work, nil, "reset", "--hard", "-q")
				wt2 := filepath.Join(dir, "wt2")
				_, e2 := realgit.RunPlain(work, nil, "worktree", "add", "-q", "--detach", wt2, string(b.ids["c0"]))
				setupOK = e1 == nil && e2 == nil
			}
			if !setupOK {
				sh.C.Violate(explore.Violation{Property: "C17", Class: "HARNESS/setup", Msg: "cannot set up the repository", Case: caseJSON(idx, nil)})
				os.RemoveAll(dir)
				continue
			}
			elsewhere := filepath.Join(dir, "elsewhere")
			os.MkdirAll(elsewhere, 0o755)
			// the symbolic link one of the addressing modes starts from (part of the
			// set-up, so that it is in the "before" snapshot too)
			os.Symlink(filepath.Join(work, "d"), filepath.Join(dir, "link"))
			var firstOut []byte
			for mi, m := range modes {
				if m.name == "bare copy" {
					continue
				}
				before := snapshot(dir)
				runs := 1
				if mi == 0 {
					runs = 6 // repeated runs: byte-identical stdout
				}
				for k := 0; k < runs; k++ {
					env := []string{fmt.Sprintf("GOMAXPROCS=%d", []int{1, 2, 16, 4, 3, 8}[k%6])}
					res := m.run(work, filepath.Join(dir, "wt2"), "", elsewhere, env, args)
					sh.C.Evals++
					if res.Exit != 0 {
						sh.C.Violate(explore.Violation{Property: "C17", Class: "error", Msg: fmt.Sprintf("%s: exit %d: %s", m.name, res.Exit, tailBytes(res.Stderr, 300)), Case: caseJSON(idx, map[string]any{"mode": m.name, "args": args})})
						continue
					}
					if firstOut == nil {
						firstOut = res.Stdout
					} else if !bytes.Equal(firstOut, res.Stdout) {
						sh.C.Violate(explore.Violation{Property: "C17", Class: "nondeterministic-stdout",
							Msg:  fmt.Sprintf("stdout of run %d in mode %q differs from the first run's (same repository, same arguments %v)", k+1, m.name, args),
							Case: caseJSON(idx, map[string]any{"mode": m.name, "args": args}), Detail: string(firstOut) + "\n-----\n" + string(res.Stdout)})
					}
				}
				// auxiliary: the same run under the race detector, free-running
				// (a report is a genuine race; silence proves nothing)
				if mi == 0 {
					for k := 0; k < 3; k++ {
						cmd := exec.Command("/verif/.build/git-sizer-race", args...)
						cmd.Dir = work
						cmd.Env = append(realgit.CleanEnv("/nonexistent-home"), fmt.Sprintf("GOMAXPROCS=%d", []int{2, 16, 4}[k]), "GORACE=halt_on_error=0")
						var eb bytes.Buffer
						cmd.Stderr = &eb
						cmd.Run()
						sh.C.Add("race_detector_runs", 1)
						if bytes.Contains(eb.Bytes(), []byte("WARNING: DATA RACE")) {
							sh.C.Violate(explore.Violation{Property: "C17", Class: "race", Msg: fmt.Sprintf("the race detector reports a data race (args %v): %s", args, tailBytes(eb.Bytes(), 1500)), Case: caseJSON(idx, map[string]any{"args": args})})
						}
					}
				}
				after := snapshot(dir)
				if d := diffSnap(before, after); d != "" {
					sh.C.Violate(explore.Violation{Property: "C17", Class: "modified", Msg: fmt.Sprintf("mode %q, args %v: the repository was modified: %s", m.name, args, d), Case: caseJSON(idx, map[string]any{"mode": m.name, "args": args})})
				}
				sh.C.Nontrivial++
			}
			// system-call level (thorough): no write-type call may name a path inside the repository
			if sh.Tier == "thorough" {
				c17Strace(sh, dir, work, args, idx)
			}
			if bi == 0 && ai == 0 {
				sh.C.Sample(5, map[string]any{"part": "read-only", "args": args, "modes": len(modes) - 1, "files_in_snapshot": len(snapshot(dir))})
			}
			os.RemoveAll(dir)
		}
	}
	// the set of git commands issued: only the read-only plumbing whitelist
	idx++
	if sh.Mine(idx) {
		dir := scratch("c17w")
		defer os.RemoveAll(dir)
		r, _ := c08Repo()
		r.Config = []mrepo.ConfigEntry{{Key: "refgroup.mine.include", Value: "refs/heads"}}
		fsn, err := cli.NewFakeSession(filepath.Join(dir, "fake"), r, &modelgit.Plan{GitDir: "/model/.git"})
		if err == nil {
			for _, args := range [][]string{{"--no-progress"}, {"--json", "--progress", "main", "main:d"}, {"-v", "--no-progress", "--include=@mine", "--show-refs"}, {"--json", "--json-version=2", "--names=none"}} {
				fsn.SetPlan(&modelgit.Plan{GitDir: "/model/.git"})
				res := cli.Run(dir, cli.FakeGitDir, fsn.Env(), 60*time.Second, args...)
				sh.C.Evals++
				for _, inv := range fsn.Log() {
					sh.C.Validated++
					if inv.Kind == modelgit.KUnexpected && modelgit.LooksReadOnly(inv.Args) {
						sh.C.Violate(explore.Violation{Property: "C17", Class: "HARNESS/unmodelled-git-command", Msg: fmt.Sprintf("the model git does not implement the read-only command %q (extend harness/modelgit)", inv.Args), Case: caseJSON(idx, map[string]any{"args": args})})
					} else if inv.Kind == modelgit.KUnexpected {
						sh.C.Violate(explore.Violation{Property: "C17", Class: "command-whitelist", Msg: fmt.Sprintf("git was invoked outside the read-only plumbing whitelist: %q", inv.Args), Case: caseJSON(idx, map[string]any{"args": args})})
					}
				}
				if res.Exit != 0 {
					sh.C.Violate(explore.Violation{Property: "C17", Class: "error", Msg: fmt.Sprintf("run with the model git failed: %s", tailBytes(res.Stderr, 300)), Case: caseJSON(idx, map[string]any{"args": args})})
				}
			}
		}
	}
}

func c17Strace(sh *explore.Shard, dir, work string, args []string, idx int64) {
	trace := filepath.Join(dir, "..", filepath.Base(dir)+".strace")
	defer os.Remove(trace)
	cmd := exec.Command("strace", append([]string{"-f", "-qq", "-o", trace, "-e", "trace=openat,open,creat,rename,renameat,renameat2,unlink,unlinkat,mkdir,mkdirat,rmdir,chmod,fchmodat,utimensat,truncate,link,linkat,symlink,symlinkat", cli.Sizer}, args...)...)
	cmd.Dir = work
	cmd.Env = realgit.CleanEnv("/nonexistent-home")
	cmd.SysProcAttr = &syscall.SysProcAttr{Setpgid: true}
	if err := cmd.Run(); err != nil {
		sh.C.Notes = append(sh.C.Notes, "strace run failed: "+err.Error())
		return
	}
	b, _ := os.ReadFile(trace)
	sh.C.Add("strace_lines", int64(bytes.Count(b, []byte("\n"))))
	for _, l := range strings.Split(string(b), "\n") {
		if !strings.Contains(l, dir) {
			continue
		}
		if strings.Contains(l, "= -1 ") {
			continue
		}
		isOpen := strings.Contains(l, "open(") || strings.Contains(l, "openat(")
		if isOpen && !strings.Contains(l, "O_WRONLY") && !strings.Contains(l, "O_RDWR") && !strings.Contains(l, "O_CREAT") && !strings.Contains(l, "O_TRUNC") && !strings.Contains(l, "O_APPEND") {
			continue
		}
		sh.C.Violate(explore.Violation{Property: "C17", Class: "modified", Msg: "write-type system call on a path inside the repository: " + l, Case: caseJSON(idx, map[string]any{"args": args})})
	}
}

// c17Replay re-executes one recorded schedule of a pipeline body.
func c17Replay(caseJSON []byte) (string, error) {
	var c struct {
		Body     string `json:"body"`
		Schedule []int  `json:"schedule"`
	}
	if err := json.Unmarshal(caseJSON, &c); err != nil {
		return "", err
	}
	if c.Body == "" {
		return "", ErrUseWorker
	}
	install()
	for _, b := range c17Bodies("thorough") {
		if b.name != c.Body {
			continue
		}
		sc := &gen.Scenario{Repo: b.repo}
		var res inproc.Result
		body := func() {
			plan := b.plan
			var pm meter.Progress
			if b.progress {
				pm = meter.NewProgressMeter(io.Discard, time.Hour)
			}
			res = inproc.Scan(modelgit.NewEnv(b.repo, &plan), inproc.SimpleGrouper{Walk: sc.Walks}, b.explicit, sizes.NameStyleFull, pm)
		}
		verifsched.Run(body, nil, verifsched.Sched{DelaySpawns: true})
		j0, _ := json.Marshal(res.HS)
		x := verifsched.Run(body, c.Schedule, verifsched.Sched{DelaySpawns: true})
		j1, _ := json.Marshal(res.HS)
		switch {
		case x.Diverged != "":
			return "", fmt.Errorf("the recorded schedule does not fit the current code: %s", x.Diverged)
		case x.PanicValue != nil || res.Panic != nil:
			return fmt.Sprintf("panic: %v %v", x.PanicValue, res.Panic), nil
		case x.Deadlock:
			return "deadlock", nil
		case b.fault && res.Err == nil:
			return "a git subprocess failed but the scan returned a result under this schedule", nil
		case !b.fault && res.Err != nil:
			return "the scan failed under this schedule: " + res.Err.Error(), nil
		case !b.fault && string(j0) != string(j1):
			return fmt.Sprintf("the result under the recorded schedule differs from the default schedule's:\n%s\n---\n%s", j0, j1), nil
		}
		return "", nil
	}
	return "", fmt.Errorf("unknown body %q", c.Body)
}

func c17Worker(sh *explore.Shard) {
	c17Sched(sh)
	c17ReadOnly(sh)
}

func c17Parent(prop, tier string) int {
	start := time.Now()
	ck := Registry["C17"]
	budget := ck.QuickBudget
	if tier == "thorough" {
		budget = ck.ThoroughBudget
	}
	exe := "/verif/.build/vcheck-sched"
	if _, err := os.Stat(exe); err != nil {
		fmt.Println("HARNESS-ERROR: scheduler build missing:", err)
		return 2
	}
	total, crashes, err := explore.RunSharded(explore.Options{Property: prop, Tier: tier, Shards: 16, Budget: budget, Horizon: budget + 30*time.Minute, Exe: exe})
	if err != nil {
		fmt.Println("HARNESS-ERROR:", err)
		return 2
	}
	for i := range crashes {
		_ = i
	}
	ck2 := *ck
	ck2.Parent = nil
	return Finish("/verif", prop, tier, &ck2, total, crashes, start)
}

func init() {
	Registry["C17"] = &Check{Level: "model_checking", Worker: c17Worker, Parent: c17Parent, ReplayExe: "/verif/.build/vcheck-sched", Replay: c17Replay, QuickBudget: 90 * time.Second, ThoroughBudget: 15 * time.Minute,
		Rule:        "(part 2, deciding determinism over schedules) the real ScanRepositoryUsingGraph, CollectReferences, obj_iter.go, batch_obj_iter.go, ref_iter.go and the verbatim go-pipe pipeline/function/scanner code, mechanically rewritten from their current text so that every mutex, atomic, channel operation, select, close, context cancellation, go statement and pipe read/write is a scheduling point, and every go statement additionally offers the choice (one deviation) of starving the new goroutine until main has finished or nothing else can run; threads: main, the two feeder goroutines, every pipeline stage goroutine and the model git processes; ALL schedules with at most 2 (quick; 1 for the fault bodies) / 3 (thorough) deviations from the default schedule for 5 fault-free bodies (whole records; a ROOT argument naming the annotated tag; 7-byte writes with per-record flushing; the real progress meter with its ticker goroutines running, bound 1/2; 1030 blobs with two equal maxima, bound 1) and 6 single-fault bodies; oracle: every schedule yields the same HistorySize JSON (numbers = oracle, same cited objects and descriptions), no deadlock, no panic, and with a fault an error in every schedule. (part 1, read-only) real binary + real git: 3 repositories (one with root trees above 64 kiB in consecutive commits) x 7 argument vectors (one with three ROOT arguments) x 8 addressing modes: snapshot (mode, size, mtime-ns, SHA-256) of git dir, work tree, index and linked worktree identical before and after; 6 repeated runs with GOMAXPROCS 1..16 give byte-identical stdout; thorough additionally traces the run with strace -f and rejects any successful write-type system call on a path inside the repository; the git commands issued (model git log) stay within the read-only plumbing whitelist; auxiliary: 3 free-running runs per case of a -race build (a report is a violation, silence is not evidence). states = distinct observations over schedules; transitions = scheduling steps; non-trivial = executions whose schedule contains at least one deviation, plus read-only cases",
		Assumptions: []string{"race-freedom is not decided by schedule enumeration (scheduling points sit at synchronisation operations); repeated free-running runs are sampling and are reported as such", "the model git processes are threads whose only interaction is through their pipes"}}
}
