package checks

import (
	"encoding/json"
	"fmt"
	"os"
	"path/filepath"
	"sort"
	"strings"
	"time"

	"github.com/github/git-sizer/sizes"

	"verif/cli"
	"verif/explore"
	"verif/gen"
	"verif/inproc"
	"verif/modelgit"
	"verif/mrepo"
	"verif/oracle"
	"verif/realgit"
)

// cited lists, for one scan result, the citations it carries:
// metric -> (object id, description).
type citation struct {
	metric oracle.Metric
	key    string
	id     mrepo.ID
	desc   string
	str    string // Path.String(): "<id>" or "<id> (<desc>)"
}

func citationsOf(hs *sizes.HistorySize) []citation {
	var out []citation
	add := func(m oracle.Metric, key string, p *sizes.Path) {
		if p == nil {
			return
		}
		out = append(out, citation{m, key, mrepo.ID(p.OID.String()), p.Path(), p.String()})
	}
	add(oracle.MaxCommitSize, "max_commit", hs.MaxCommitSizeCommit)
	add(oracle.MaxParents, "max_parent_count_commit", hs.MaxParentCountCommit)
	add(oracle.MaxTreeEntries, "max_tree_entries_tree", hs.MaxTreeEntriesTree)
	add(oracle.MaxBlobSize, "max_blob_size_blob", hs.MaxBlobSizeBlob)
	add(oracle.MaxTagDepth, "max_tag_depth_tag", hs.MaxTagDepthTag)
	add(oracle.MaxPathDepth, "max_path_depth_tree", hs.MaxPathDepthTree)
	add(oracle.MaxPathLength, "max_path_length_tree", hs.MaxPathLengthTree)
	add(oracle.MaxExpTrees, "max_expanded_tree_count_tree", hs.MaxExpandedTreeCountTree)
	add(oracle.MaxExpBlobs, "max_expanded_blob_count_tree", hs.MaxExpandedBlobCountTree)
	add(oracle.MaxExpBlobSize, "max_expanded_blob_size_tree", hs.MaxExpandedBlobSizeTree)
	add(oracle.MaxExpLinks, "max_expanded_link_count_tree", hs.MaxExpandedLinkCountTree)
	add(oracle.MaxExpSubs, "max_expanded_submodule_count_tree", hs.MaxExpandedSubmoduleCountTree)
	return out
}

var metricKind = map[oracle.Metric]mrepo.Kind{
	oracle.MaxCommitSize: mrepo.Commit, oracle.MaxParents: mrepo.Commit, oracle.MaxTreeEntries: mrepo.Tree,
	oracle.MaxBlobSize: mrepo.Blob, oracle.MaxTagDepth: mrepo.Tag, oracle.MaxPathDepth: mrepo.Tree,
	oracle.MaxPathLength: mrepo.Tree, oracle.MaxExpTrees: mrepo.Tree, oracle.MaxExpBlobs: mrepo.Tree,
	oracle.MaxExpBlobSize: mrepo.Tree, oracle.MaxExpLinks: mrepo.Tree, oracle.MaxExpSubs: mrepo.Tree,
}

// rootSpec is one way of choosing a root.
type rootSpec struct {
	ref  string // reference name walked, or ""
	root string // ROOT argument spelling, or ""
}

// judgeCitations checks every citation of a scan: the cited object is a
// reachable object of the right kind attaining the reported value, and the
// description resolves to it. It returns a signature for outcome counting.
func judgeCitations(sh *explore.Shard, prop string, sc *gen.Scenario, env *modelgit.Env, res *inproc.Result, style sizes.NameStyle, extra map[string]any) string {
	mk := func(class, msg string) {
		m := map[string]any{"desc": sc.Desc, "style": int(style)}
		for k, v := range extra {
			m[k] = v
		}
		sh.C.Violate(explore.Violation{Property: prop, Class: class, Msg: msg + " [" + sc.Desc + "]",
			Case: caseJSON(sh.Index(), m), Detail: sc.Repo.Describe()})
	}
	cs := citationsOf(&res.HS)
	if style == sizes.NameStyleNone {
		if len(cs) > 0 {
			mk("cited-with-names-none", fmt.Sprintf("%d objects are cited although the name style is none (e.g. %s)", len(cs), cs[0].key))
		}
		return "none"
	}
	orc := oracle.Compute(sc.Repo, sc.Roots())
	var sig strings.Builder
	for _, c := range cs {
		o, ok := sc.Repo.Objects[c.id]
		switch {
		case !ok || !orc.Reach[c.id]:
			mk("witness", fmt.Sprintf("%s cites %s which is not a reachable object", c.key, c.id))
			continue
		case o.Kind != metricKind[c.metric]:
			mk("witness", fmt.Sprintf("%s cites a %s", c.key, o.Kind))
			continue
		case !orc.Witness[c.metric][c.id]:
			mk("witness", fmt.Sprintf("%s cites %s, which does not attain the maximum %d", c.key, c.id.Short(), orc.Max[c.metric].V))
			continue
		}
		if style == sizes.NameStyleHash {
			if c.desc != "" {
				mk("desc-with-names-hash", fmt.Sprintf("%s has description %q although the name style is hash", c.key, c.desc))
			}
			continue
		}
		if c.desc == "" {
			sig.WriteString("-")
			continue
		}
		got, err := env.Resolve(c.desc)
		sh.C.Add("descriptions_judged", 1)
		switch {
		case err == modelgit.ErrUnsupported:
			sh.C.Add("descriptions_outside_model_rev_parse", 1)
			sig.WriteString("?")
		case err != nil:
			class := "desc-unresolvable"
			if strings.HasPrefix(c.desc, "???") {
				class = "C08-unnamed-tree"
			} else if dm := treeRootDefect(sc, env, c); dm {
				class = "C08-tree-root-slash"
			}
			mk(class, fmt.Sprintf("%s: description %q of %s is not a revision expression git can resolve", c.key, c.desc, c.id.Short()))
			sig.WriteString("!")
		case got != c.id:
			mk("desc-wrong-object", fmt.Sprintf("%s: description %q resolves to %s, not to the cited %s", c.key, c.desc, got.Short(), c.id.Short()))
			sig.WriteString("!")
		default:
			sig.WriteString("+")
		}
	}
	return sig.String()
}

// treeRootDefect recognises the known description defect precisely: the
// description has the form <rootname>/<path> where <rootname> is the name of a
// walked root that is itself a tree (a reference or ROOT naming a tree
// directly), and <rootname>:<path> (or, if the root name already contains a
// colon, the same text) would not be needed. The observation must equal that
// prediction and the corrected expression must resolve to the cited object.
func treeRootDefect(sc *gen.Scenario, env *modelgit.Env, c citation) bool {
	type named struct {
		name string
		id   mrepo.ID
	}
	var roots []named
	for _, r := range sc.Repo.Refs {
		if sc.Walks(r.Name) {
			roots = append(roots, named{r.Name, r.ID})
		}
	}
	for _, e := range sc.Explicit {
		roots = append(roots, named{e[0], mrepo.ID(e[1])})
	}
	for _, r := range roots {
		o := sc.Repo.Objects[r.id]
		if o == nil || o.Kind != mrepo.Tree {
			continue
		}
		if strings.HasPrefix(c.desc, r.name+"/") {
			path := c.desc[len(r.name)+1:]
			if got, err := env.Resolve(string(r.id) + ":" + path); err == nil && got == c.id {
				return true
			}
		}
	}
	return false
}

func c08Repo() (*mrepo.Repo, map[string]mrepo.ID) {
	r := mrepo.New()
	lv := gen.AddLeaves(r)
	t0 := r.AddTree([]mrepo.Entry{{Mode: 0o100644, Name: "a", Child: lv.BlobA}, {Mode: 0o120000, Name: "lnk", Child: lv.LinkTarget}})
	t1 := r.AddTree([]mrepo.Entry{{Mode: 0o40000, Name: "d", Child: t0}, {Mode: 0o100755, Name: "x", Child: lv.BlobB}})
	t2 := r.AddTree([]mrepo.Entry{{Mode: 0o40000, Name: "e", Child: t0}, {Mode: 0o100644, Name: "y", Child: lv.BlobB}}) // ties with t1
	c0 := r.AddCommit(mrepo.CommitSpec{Tree: t0, Time: gen.T0, Message: "c0\n"})
	c1 := r.AddCommit(mrepo.CommitSpec{Tree: t1, Parents: []mrepo.ID{c0}, Time: gen.T0 + 100, Message: "c1\n"})
	c2 := r.AddCommit(mrepo.CommitSpec{Tree: t2, Parents: []mrepo.ID{c0}, Time: gen.T0 + 50, Message: "c2\n"}) // same size as c1
	ta := r.AddTag(mrepo.TagSpec{Target: c1, Name: "ta", Time: gen.T0, Message: "ta\n"})
	tb := r.AddTag(mrepo.TagSpec{Target: ta, Name: "tb", Time: gen.T0, Message: "tb\n"})
	tt := r.AddTag(mrepo.TagSpec{Target: t1, Name: "tt", Time: gen.T0, Message: "tree tag\n"})
	tbl := r.AddTag(mrepo.TagSpec{Target: lv.BlobC, Name: "tbl", Time: gen.T0, Message: "blob tag\n"})
	r.SetRef("refs/heads/main", c1)
	r.SetRef("refs/heads/other", c2)
	r.SetRef("refs/tags/lwc", c0)
	r.SetRef("refs/tags/lwt", t0)
	r.SetRef("refs/tags/lwb", lv.BlobB)
	r.SetRef("refs/tags/ta", ta)
	r.SetRef("refs/tags/tb", tb)
	r.SetRef("refs/tags/tt", tt)
	r.SetRef("refs/tags/tbl", tbl)
	// ambiguous short names: a tag called like a branch, pointing elsewhere
	r.SetRef("refs/tags/other", c0)
	r.SetRef("refs/heads/v1", c2)
	r.SetRef("refs/tags/v1", ta)
	r.Head = "ref: refs/heads/main"
	return r, map[string]mrepo.ID{"c1": c1, "blobC": lv.BlobC, "t1": t1}
}

func c08Specs(ids map[string]mrepo.ID) []rootSpec {
	specs := []rootSpec{}
	for _, ref := range []string{"refs/heads/main", "refs/heads/other", "refs/heads/v1", "refs/tags/lwc", "refs/tags/lwt", "refs/tags/lwb", "refs/tags/ta", "refs/tags/tb", "refs/tags/tt", "refs/tags/tbl"} {
		specs = append(specs, rootSpec{ref: ref})
	}
	for _, root := range []string{string(ids["c1"]), "main", "main^{tree}", "main:", "main:d", "ta^{}", "refs/tags/tt^{tree}", string(ids["blobC"]), "HEAD", "tb^{commit}", string(ids["t1"]), "main~1"} {
		specs = append(specs, rootSpec{root: root})
	}
	return specs
}

func c08Scenario(r *mrepo.Repo, specs []rootSpec) (*gen.Scenario, error) {
	walk := map[string]bool{}
	var explicit [][2]string
	env := modelgit.NewEnv(r, &modelgit.Plan{})
	var names []string
	for _, s := range specs {
		if s.ref != "" {
			walk[s.ref] = true
			names = append(names, s.ref)
		} else {
			id, err := env.Resolve(s.root)
			if err != nil {
				return nil, fmt.Errorf("harness: ROOT %q does not resolve in the model: %v", s.root, err)
			}
			explicit = append(explicit, [2]string{s.root, string(id)})
			names = append(names, "ROOT:"+s.root)
		}
	}
	return &gen.Scenario{Repo: r, WalkRefs: walk, Explicit: explicit, Desc: "roots=" + strings.Join(names, ",")}, nil
}

// c08CLI runs the real binary with the real git on the materialised scenario
// and lets real `git rev-parse` judge every description; the model's rev-parse
// is compared with it on the same expressions (conformance).
func c08CLI(sh *explore.Shard, sc *gen.Scenario) {
	dir := scratch("c08")
	defer os.RemoveAll(dir)
	gd := filepath.Join(dir, "repo.git")
	if err := realgit.Materialise(sc.Repo, gd); err != nil {
		return
	}
	args := []string{"--json", "--json-version=2", "--no-progress"}
	n := 0
	for _, r := range sc.Repo.Refs {
		if sc.WalkRefs != nil && sc.WalkRefs[r.Name] {
			args = append(args, "--include", r.Name)
			n++
		}
	}
	for _, e := range sc.Explicit {
		args = append(args, e[0])
	}
	if n == 0 && len(sc.Explicit) == 0 {
		return
	}
	res := cli.Run(gd, "", nil, 60*time.Second, args...)
	sh.C.Add("cli_real_runs", 1)
	mk := func(class, msg string) {
		sh.C.Violate(explore.Violation{Property: "C08", Class: class, Msg: msg + " [" + sc.Desc + "]",
			Case: caseJSON(sh.Index(), map[string]any{"desc": sc.Desc, "args": args}), Detail: sc.Repo.Describe()})
	}
	if res.Exit != 0 {
		mk("cli-error", fmt.Sprintf("git-sizer with real git failed (exit %d): %s", res.Exit, res.Stderr))
		return
	}
	var items map[string]v2Item
	if err := json.Unmarshal(res.Stdout, &items); err != nil {
		mk("HARNESS/json", "cannot parse JSON v2: "+err.Error())
		return
	}
	env := modelgit.NewEnv(sc.Repo, &modelgit.Plan{})
	for sym, it := range items {
		if it.ObjectName == "" {
			continue
		}
		if it.ObjectDescription == "" {
			continue
		}
		out, _, exit := realgit.Run(gd, nil, "rev-parse", "--verify", "--end-of-options", it.ObjectDescription)
		got := strings.TrimSpace(string(out))
		sh.C.Validated++
		if exit != 0 || got != it.ObjectName {
			mk("cli-desc", fmt.Sprintf("%s: real git resolves description %q to %q (exit %d), cited object is %s", sym, it.ObjectDescription, got, exit, it.ObjectName))
		}
		mid, merr := env.Resolve(it.ObjectDescription)
		if merr == modelgit.ErrUnsupported {
			continue
		}
		if (merr == nil) != (exit == 0) || (merr == nil && string(mid) != got) {
			mk("HARNESS/conformance", fmt.Sprintf("model rev-parse disagrees with real git on %q: model %q/%v, real %q/exit %d", it.ObjectDescription, mid, merr, got, exit))
		}
	}
}

func c08Worker(sh *explore.Shard) {
	install()
	r, ids := c08Repo()
	specs := c08Specs(ids)
	var idx int64
	runScenario := func(sc *gen.Scenario, space gen.OrderSpace) {
		l := defaultListing(sc)
		states := map[string]bool{}
		cnt, _ := gen.Orders(sc.Repo, l, space, func(order []mrepo.ID) bool {
			for _, style := range []sizes.NameStyle{sizes.NameStyleFull, sizes.NameStyleHash, sizes.NameStyleNone} {
				env := modelgit.NewEnv(sc.Repo, &modelgit.Plan{ListOrder: order})
				res := inproc.Scan(env, inproc.SimpleGrouper{Walk: sc.Walks}, sc.Explicit, style, nil)
				sh.C.Evals++
				sh.C.Transitions += int64(len(order))
				if res.Panic != nil || res.Err != nil {
					sh.C.Violate(explore.Violation{Property: "C08", Class: "error", Msg: fmt.Sprintf("scan failed: err=%v panic=%v [%s]", res.Err, res.Panic, sc.Desc),
						Case: caseJSON(sh.Index(), map[string]any{"desc": sc.Desc, "order": orderStr(order)})})
					continue
				}
				sig := judgeCitations(sh, "C08", sc, env, &res, style, map[string]any{"order": orderStr(order)})
				if style == sizes.NameStyleFull {
					sh.C.Outcome(sig)
					states[sig+orderStr(order)] = true
				}
			}
			return true
		})
		sh.C.States += int64(len(states))
		if cnt > 1 {
			sh.C.Nontrivial++
		}
	}
	// (1) the root-kind repository: every single root spec and every pair
	for i := range specs {
		for j := i; j < len(specs); j++ {
			idx++
			if !sh.Mine(idx) {
				continue
			}
			if sh.Expired() {
				return
			}
			ss := []rootSpec{specs[i]}
			if j > i {
				ss = append(ss, specs[j])
			}
			sc, err := c08Scenario(r, ss)
			if err != nil {
				panic(err)
			}
			runScenario(sc, gen.OrderSpace{Trees: true, Tags: true, Commits: true})
			if idx%2 == 0 || sh.Tier == "thorough" {
				c08CLI(sh, sc)
			}
			if idx%37 == 1 {
				sh.C.Sample(4, map[string]any{"desc": sc.Desc, "explicit": sc.Explicit})
			}
		}
	}
	// (2) tree DAG family: witnesses of the checkout maxima under every tree order
	// leaf kinds with different sizes, so that the tree with the most files is
	// not always the tree with the most bytes
	k, al := 3, gen.TreeAlphabet{Names: []string{"a", "bbb"}, Leaves: "acls", MaxEntries: 2}
	if sh.Tier != "thorough" {
		k = 2
	}
	gen.TreeDAGs(k, al, func(r *mrepo.Repo, lv gen.Leaves, trees []mrepo.ID) bool {
		idx++
		if !sh.Mine(idx) {
			return true
		}
		if sh.Expired() {
			return false
		}
		sc := treeScenario(r, trees, idx%2 == 0)
		sc.Desc = fmt.Sprintf("treedag #%d", idx)
		runScenario(sc, gen.OrderSpace{Trees: true})
		if idx%23 == 0 {
			c08CLI(sh, sc)
		}
		return true
	})
	_ = sort.Strings
}

func init() {
	Registry["C08"] = &Check{Level: "model_checking", Worker: c08Worker, QuickBudget: 60 * time.Second, ThoroughBudget: 10 * time.Minute,
		Rule:        "(1) a repository with every root kind (branches, lightweight tags of commit/tree/blob, annotated tags and tag chains of commit/tree/blob, objects reachable only through tags, equal maxima): every single root spec and every pair out of 9 references and 12 ROOT spellings (full id, short name, X^{tree}, X:, X:dir, X^{}, ~n) x all listing orders of trees, tags and commits x 3 name styles; (2) every tree DAG of the C04 family x all tree orders. Each cited id must be in the oracle's witness set (reachable, right kind, attains the reported maximum); each description must resolve, by the model's rev-parse (validated against real git in the conformance pass), to exactly the cited id; none cited with names=none, no description with names=hash. non-trivial = scenario with more than one listing order",
		Assumptions: []string{"descriptions are judged in-process by modelgit's rev-parse (subset of revision syntax; anything outside it is counted as unknown, never as a verdict) and by real git at CLI level"}}
}
