package checks

import (
	"encoding/json"
	"fmt"
	"math/big"
	"sort"
	"strings"
	"sync"
	"time"

	"github.com/github/git-sizer/counts"

	"verif/explore"
)

type prefixSys struct {
	name  string
	h     *counts.Humaner
	names []string
	mults []uint64
}

func prefixSystems() []prefixSys {
	m := counts.Metric
	b := counts.Binary
	return []prefixSys{
		{"metric", &m, []string{"", "k", "M", "G", "T", "P"}, []uint64{1, 1e3, 1e6, 1e9, 1e12, 1e15}},
		{"binary", &b, []string{"", "Ki", "Mi", "Gi", "Ti", "Pi"}, []uint64{1, 1 << 10, 1 << 20, 1 << 30, 1 << 40, 1 << 50}},
	}
}

// c12Check verifies one value; it returns the rendered magnitude as a rational
// (numerator over 100) for the monotonicity check, and a problem description.
func c12Check(ps *prefixSys, n uint64) (mag *big.Int, problem string) {
	numeral, unit := ps.h.FormatNumber(n, "B")
	if !strings.HasSuffix(unit, "B") {
		return nil, fmt.Sprintf("unit %q does not end with the unit string", unit)
	}
	pname := strings.TrimSuffix(unit, "B")
	pi := -1
	for i, nm := range ps.names {
		if nm == pname {
			pi = i
		}
	}
	if pi < 0 {
		return nil, fmt.Sprintf("unknown prefix %q", pname)
	}
	// expected prefix: the largest multiplier not exceeding n (none for 0)
	want := 0
	for i, m := range ps.mults {
		if m <= n {
			want = i
		}
	}
	if pi != want {
		return nil, fmt.Sprintf("prefix %q chosen, expected %q", pname, ps.names[want])
	}
	if len([]rune(numeral)) > 5 {
		return nil, fmt.Sprintf("numeral %q longer than five characters", numeral)
	}
	// parse numeral as decimal with d fraction digits
	intPart, frac := numeral, ""
	if i := strings.IndexByte(numeral, '.'); i >= 0 {
		intPart, frac = numeral[:i], numeral[i+1:]
	}
	if intPart == "" || strings.Trim(intPart+frac, "0123456789") != "" {
		return nil, fmt.Sprintf("numeral %q is not a plain decimal", numeral)
	}
	d := len(frac)
	N, _ := new(big.Int).SetString(intPart+frac, 10)
	mult := new(big.Int).SetUint64(ps.mults[pi])
	pow := new(big.Int).Exp(big.NewInt(10), big.NewInt(int64(d)), nil)
	bn := new(big.Int).SetUint64(n)
	if pi == 0 {
		if d != 0 || N.Cmp(bn) != 0 {
			return nil, fmt.Sprintf("value below the first prefix printed as %q, not exactly", numeral)
		}
	} else {
		// |N*mult - n*10^d| * 2 <= mult
		diff := new(big.Int).Sub(new(big.Int).Mul(N, mult), new(big.Int).Mul(bn, pow))
		diff.Abs(diff)
		diff.Lsh(diff, 1)
		if diff.Cmp(mult) > 0 {
			return nil, fmt.Sprintf("numeral %q %s is off by more than half a unit of its last digit", numeral, unit)
		}
		digits := len(strings.TrimLeft(intPart+frac, "0"))
		if intPart != "0" {
			digits = len(intPart) + len(frac)
		}
		if digits < 3 {
			return nil, fmt.Sprintf("numeral %q has fewer than three significant digits", numeral)
		}
	}
	// magnitude * 100 as an integer: N * mult * 10^(2-d)
	mag = new(big.Int).Mul(N, mult)
	mag.Mul(mag, new(big.Int).Exp(big.NewInt(10), big.NewInt(int64(2-d)), nil))
	return mag, ""
}

// c12Points returns the sorted boundary-structured value set (besides the dense range).
func c12Points(ps *prefixSys) []uint64 {
	set := map[uint64]struct{}{}
	add := func(v *big.Int) {
		for dlt := int64(-3); dlt <= 3; dlt++ {
			x := new(big.Int).Add(v, big.NewInt(dlt))
			if x.Sign() >= 0 && x.IsUint64() {
				set[x.Uint64()] = struct{}{}
			}
		}
	}
	for k := uint(0); k < 64; k++ {
		add(new(big.Int).Lsh(big.NewInt(1), k))
	}
	add(new(big.Int).SetUint64(^uint64(0)))
	for pi := 1; pi < len(ps.mults); pi++ {
		m := new(big.Int).SetUint64(ps.mults[pi])
		// multiples 1,10,100,999.5,1000|1024 of the multiplier
		for _, num := range []int64{2, 20, 200, 1999, 2000, 2048} {
			v := new(big.Int).Mul(m, big.NewInt(num))
			v.Rsh(v, 1)
			add(v)
		}
		// every rounding half-boundary: band [1,10): (k+0.5)/100, [10,100): (k+0.5)/10, [100,..): k+0.5
		top := int64(1024)
		if pi == len(ps.mults)-1 {
			top = 18447
		}
		for k := int64(100); k < 1000; k++ {
			// (2k+1)*m/200 and (2k+1)*m/20
			v := new(big.Int).Mul(m, big.NewInt(2*k+1))
			add(new(big.Int).Div(v, big.NewInt(200)))
			add(new(big.Int).Div(v, big.NewInt(20)))
		}
		for k := int64(100); k < top; k++ {
			v := new(big.Int).Mul(m, big.NewInt(2*k+1))
			add(new(big.Int).Div(v, big.NewInt(2)))
		}
	}
	out := make([]uint64, 0, len(set))
	for v := range set {
		out = append(out, v)
	}
	sort.Slice(out, func(i, j int) bool { return out[i] < out[j] })
	return out
}

func c12Worker(sh *explore.Shard) {
	systems := prefixSystems()
	dense := uint64(1) << 20
	if sh.Tier == "thorough" {
		dense = 1 << 26
	}
	const block = 1 << 14
	var idx int64
	report := func(ps *prefixSys, n uint64, problem string) {
		class := "rounding"
		if n >= 1<<53 && strings.Contains(problem, "half a unit") {
			class = "C12-float53"
		}
		sh.C.Violate(explore.Violation{Property: "C12", Class: class,
			Msg:  fmt.Sprintf("%s FormatNumber(%d): %s", ps.name, n, problem),
			Case: caseJSON(sh.Index(), map[string]any{"system": ps.name, "n": n})})
	}
	for si := range systems {
		ps := &systems[si]
		// (i) dense range, in blocks (monotonicity across block borders is
		// checked by overlapping one value)
		for lo := uint64(0); lo < dense; lo += block {
			idx++
			if !sh.Mine(idx) {
				continue
			}
			if sh.Expired() {
				break
			}
			var prev *big.Int
			start := lo
			if start > 0 {
				start--
			}
			for n := start; n < lo+block; n++ {
				mag, problem := c12Check(ps, n)
				sh.C.Evals++
				if problem != "" {
					report(ps, n, problem)
					prev = nil
					continue
				}
				if prev != nil && mag.Cmp(prev) < 0 {
					report(ps, n, "rendered magnitude decreases from the previous value")
				}
				prev = mag
			}
			sh.C.Nontrivial += block
		}
		// (ii)+(iii) boundary-structured points; adjacent explored pairs checked for monotonicity
		pts := c12Points(ps)
		const chunk = 4096
		for lo := 0; lo < len(pts); lo += chunk {
			idx++
			if !sh.Mine(idx) {
				continue
			}
			hi := lo + chunk
			if hi > len(pts) {
				hi = len(pts)
			}
			start := lo
			if start > 0 {
				start--
			}
			var prev *big.Int
			for _, n := range pts[start:hi] {
				mag, problem := c12Check(ps, n)
				sh.C.Evals++
				sh.C.Nontrivial++
				if problem != "" {
					report(ps, n, problem)
					prev = nil
					continue
				}
				if prev != nil && mag.Cmp(prev) < 0 {
					report(ps, n, "rendered magnitude decreases from the previous explored value")
				}
				prev = mag
				num, unit := ps.h.FormatNumber(n, "B")
				sh.C.Outcome(fmt.Sprintf("%s/%d/%d", unit, len(num), strings.IndexByte(num, '.')))
			}
			if lo == 0 {
				sh.C.Sample(4, map[string]any{"system": ps.name, "boundary_points": len(pts), "first": pts[:8], "rendered_example": fmt.Sprint(ps.h.FormatNumber(pts[len(pts)/2], "B"))})
			}
		}
	}
	// (iii') the entry point the report uses, Humaner.Format(counter, unit): for
	// every boundary point below a counter's capacity it is FormatNumber of the
	// same value (only the capacity itself means "overflowed")
	for si := range systems {
		ps := &systems[si]
		idx++
		if !sh.Mine(idx) || sh.Expired() {
			continue
		}
		for _, n := range c12Points(ps) {
			wn, wu := ps.h.FormatNumber(n, "B")
			if n < 1<<64-1 {
				gn, gu := ps.h.Format(counts.Count64(n), "B")
				if gn != wn || gu != wu {
					report(ps, n, fmt.Sprintf("Format(Count64) renders %q %q, FormatNumber %q %q", gn, gu, wn, wu))
				}
			}
			if n < 1<<32-1 {
				gn, gu := ps.h.Format(counts.Count32(n), "B")
				if gn != wn || gu != wu {
					report(ps, n, fmt.Sprintf("Format(Count32) renders %q %q, FormatNumber %q %q", gn, gu, wn, wu))
				}
			}
			sh.C.Evals++
		}
	}
	// (iv) call-order independence: a rendering must not depend on what the same
	// formatter rendered before. Every ordered pair and every ordered triple of a
	// boundary alphabet (0, 1, 999, each multiplier -1/+0/+1, x10, x999) on one
	// formatter value, each result judged by the exact oracle.
	for si := range systems {
		ps := &systems[si]
		alpha := []uint64{0, 1, 999, 1<<64 - 1}
		for _, m := range ps.mults {
			if m > 1 {
				alpha = append(alpha, m-1, m, m+1, 10*m, 999*m)
			}
		}
		for ai, a := range alpha {
			idx++
			if !sh.Mine(idx) || sh.Expired() {
				continue
			}
			for _, b := range alpha {
				ps.h.FormatNumber(a, "B")
				if _, problem := c12Check(ps, b); problem != "" {
					report(ps, b, fmt.Sprintf("%s (when rendered right after %d)", problem, a))
				}
				sh.C.Evals++
				if ai%5 == 1 {
					for _, c := range alpha {
						ps.h.FormatNumber(a, "B")
						ps.h.FormatNumber(b, "B")
						if _, problem := c12Check(ps, c); problem != "" {
							report(ps, c, fmt.Sprintf("%s (when rendered right after %d, %d)", problem, a, b))
						}
						sh.C.Evals++
					}
				}
			}
			sh.C.Nontrivial++
		}
	}
	// (v) auxiliary, free-running (sampling; a wrong rendering is a violation,
	// silence is not evidence): several goroutines rendering at once through the
	// same package-level formatters
	idx++
	if sh.Mine(idx) && !sh.Expired() {
		var wg sync.WaitGroup
		var mu sync.Mutex
		bad := ""
		for g := 0; g < 8; g++ {
			wg.Add(1)
			go func(g int) {
				defer wg.Done()
				ps := &systems[g%len(systems)]
				for n := uint64(900 + g); n < 900+200000; n += 7 {
					if _, problem := c12Check(ps, n); problem != "" {
						mu.Lock()
						if bad == "" {
							bad = fmt.Sprintf("%s FormatNumber(%d) with 8 goroutines rendering at once: %s", ps.name, n, problem)
						}
						mu.Unlock()
						return
					}
				}
			}(g)
		}
		wg.Wait()
		sh.C.Add("concurrent_renderings", 8*200000/7)
		if bad != "" {
			sh.C.Violate(explore.Violation{Property: "C12", Class: "concurrent-callers", Msg: bad, Case: caseJSON(sh.Index(), nil)})
		}
	}
	_ = json.Marshal
}

func init() {
	Registry["C12"] = &Check{Level: "exploration", Worker: c12Worker, QuickBudget: 40 * time.Second, ThoroughBudget: 5 * time.Minute,
		Rule:        "both prefix systems: every n in [0,2^20) (quick) / [0,2^26) (thorough); every rounding half-boundary of every prefix and precision band +-3; every prefix multiplier x {1,10,100,999.5,1000,1024} +-3; 2^k +-3 for all k; cap-3..cap (2^32 +-3 and 2^64 +-3 included); Humaner.Format(Count32/Count64) agrees with FormatNumber below the capacity. Oracle: exact big-integer arithmetic (prefix choice, half-unit error bound, exactness below the first prefix, >=3 significant digits, <=5 characters, monotone magnitude between adjacent explored values); every ordered pair and (for a fifth of the first elements) every ordered triple of a 4+5 x prefixes boundary alphabet rendered in sequence on one formatter value (call-order independence); auxiliary: 8 goroutines rendering at once (sampling). distinct_nontrivial = values checked (all are distinct inputs)",
		Assumptions: []string{"values above the dense range that are not near an enumerated boundary are not explored; between two adjacent explored points nothing is claimed about the interior"}}
}
