package checks

import (
	"fmt"
	"math/bits"
	"sort"

	"github.com/github/git-sizer/counts"
	"github.com/github/git-sizer/git"
	"github.com/github/git-sizer/sizes"

	"verif/explore"
	"verif/gen"
	"verif/mrepo"
	"verif/oracle"
)

// Explicit-state search at the Graph API: a state is the SET of trees (or tags)
// delivered so far; its successor is obtained by replaying one path to the set
// on a fresh Graph plus one more delivery (live objects cannot be copied). The
// canonical key of the entire private state of the Graph (overlay method
// VerifStateKey) must be the same for every path into the same set: the data
// state depends on the set only, not on the order. The end state must equal the
// oracle and leave no pending record.

func oidOf(id mrepo.ID) git.OID {
	o, err := git.NewOID(string(id))
	if err != nil {
		panic(err)
	}
	return o
}

// deliver registers, on a fresh Graph, all blobs, then the trees in the given
// order; it returns the graph (the caller may continue) or a panic value.
func graphWithTrees(r *mrepo.Repo, blobs []mrepo.ID, order []mrepo.ID) (g *sizes.Graph, pv any) {
	defer func() {
		if rec := recover(); rec != nil {
			pv = rec
		}
	}()
	g = sizes.NewGraph(sizes.NameStyleNone)
	for _, b := range blobs {
		g.RegisterBlob(oidOf(b), counts.NewCount32(r.Objects[b].Size))
	}
	for _, t := range order {
		tree, err := git.ParseTree(oidOf(t), r.Objects[t].Body)
		if err != nil {
			panic(err)
		}
		if err := g.RegisterTree(oidOf(t), tree); err != nil {
			panic(err)
		}
	}
	return g, nil
}

func graphWithTags(r *mrepo.Repo, order []mrepo.ID) (g *sizes.Graph, pv any) {
	defer func() {
		if rec := recover(); rec != nil {
			pv = rec
		}
	}()
	g = sizes.NewGraph(sizes.NameStyleNone)
	for _, t := range order {
		tag, err := git.ParseTag(oidOf(t), r.Objects[t].Body)
		if err != nil {
			panic(err)
		}
		g.RegisterTag(oidOf(t), tag)
	}
	return g, nil
}

// c09SetSearch explores all delivered-sets of the k items breadth-first.
func c09SetSearch(sh *explore.Shard, desc string, k int, build func(order []int) (*sizes.Graph, any), finalCheck func(g *sizes.Graph) string) {
	mk := func(class, msg string) {
		sh.C.Violate(explore.Violation{Property: "C09", Class: class, Msg: msg + " [" + desc + "]", Case: caseJSON(sh.Index(), map[string]any{"desc": desc})})
	}
	// path[S] = one delivery order reaching S; key[S] = state key
	path := map[uint32][]int{0: {}}
	keyOf := map[uint32]string{}
	g0, pv := build(nil)
	if pv != nil {
		mk("panic", fmt.Sprintf("empty delivery panicked: %v", pv))
		return
	}
	keyOf[0] = g0.VerifStateKey()
	full := uint32(1)<<uint(k) - 1
	// process sets in order of size
	sets := make([]uint32, 0, 1<<uint(k))
	for s := uint32(0); s <= full; s++ {
		sets = append(sets, s)
	}
	sort.Slice(sets, func(i, j int) bool {
		a, b := bits.OnesCount32(sets[i]), bits.OnesCount32(sets[j])
		if a != b {
			return a < b
		}
		return sets[i] < sets[j]
	})
	for _, s := range sets {
		if s == 0 {
			continue
		}
		for t := 0; t < k; t++ {
			if s&(1<<uint(t)) == 0 {
				continue
			}
			prev := s &^ (1 << uint(t))
			order := append(append([]int(nil), path[prev]...), t)
			g, pv := build(order)
			sh.C.Transitions++
			if pv != nil {
				mk("panic", fmt.Sprintf("delivery order %v panicked: %v", order, pv))
				return
			}
			key := g.VerifStateKey()
			if old, ok := keyOf[s]; !ok {
				keyOf[s] = key
				path[s] = order
				sh.C.States++
			} else if old != key {
				mk("order-dependent-state", fmt.Sprintf("the state after delivering the set %b depends on the order: %v vs %v\n%s\n---\n%s", s, path[s], order, old, key))
				return
			}
			if s == full {
				nt, ng := g.VerifPending()
				if nt > 0 || ng > 0 { // (-1: the record maps could not be located by reflection)
					mk("pending", fmt.Sprintf("%d tree and %d tag records remain after everything was delivered (order %v)", nt, ng, order))
					return
				}
				if msg := finalCheck(g); msg != "" {
					mk("mismatch", msg+fmt.Sprintf(" (order %v)", order))
					return
				}
			}
		}
	}
	sh.C.Evals++
	sh.C.Nontrivial++
}

func c09GraphSearch(sh *explore.Shard, idx *int64) {
	// (1) tree DAG family with k generated trees
	k := 3
	al := gen.TreeAlphabet{Names: []string{"a", "bbb"}, Leaves: "bl", MaxEntries: 2}
	if sh.Tier == "thorough" {
		k = 4
	}
	gen.TreeDAGs(k, al, func(r *mrepo.Repo, lv gen.Leaves, trees []mrepo.ID) bool {
		*idx++
		if !sh.Mine(*idx) {
			return true
		}
		if sh.Expired() {
			return false
		}
		// distinct trees only
		seen := map[mrepo.ID]bool{}
		var ts []mrepo.ID
		for _, t := range trees {
			if !seen[t] {
				seen[t] = true
				ts = append(ts, t)
			}
		}
		// every subtree referenced must be among the delivered trees (the empty tree may be referenced implicitly)
		reach := oracle.Compute(r, ts)
		var blobs []mrepo.ID
		for id := range reach.Reach {
			switch r.Objects[id].Kind {
			case mrepo.Blob:
				blobs = append(blobs, id)
			case mrepo.Tree:
				if !seen[id] {
					seen[id] = true
					ts = append(ts, id)
				}
			}
		}
		sort.Slice(blobs, func(i, j int) bool { return blobs[i] < blobs[j] })
		want := reach.Numbers()
		c09SetSearch(sh, fmt.Sprintf("graph-api trees #%d (%d trees)", *idx, len(ts)), len(ts),
			func(order []int) (*sizes.Graph, any) {
				ids := make([]mrepo.ID, len(order))
				for i, o := range order {
					ids[i] = ts[o]
				}
				return graphWithTrees(r, blobs, ids)
			},
			func(g *sizes.Graph) string {
				hs := g.HistorySize()
				got := inprocNumbers(&hs)
				for _, key := range append(append([]string(nil), checkoutKeys...), "unique_tree_count", "unique_tree_size", "unique_tree_entries", "max_tree_entries", "unique_blob_count", "unique_blob_size", "max_blob_size") {
					if got[key] != want[key] {
						return fmt.Sprintf("%s: %d, true %d", key, got[key], want[key])
					}
				}
				return ""
			})
		return true
	})
	// (2) a 10-tree (12 in thorough) DAG with heavy sharing: 2^k sets instead of k! orders
	big := 10
	if sh.Tier == "thorough" {
		big = 12
	}
	*idx++
	if sh.Mine(*idx) && !sh.Expired() {
		r := mrepo.New()
		lv := gen.AddLeaves(r)
		ts := []mrepo.ID{r.AddTree([]mrepo.Entry{{Mode: 0o100644, Name: "f", Child: lv.BlobA}})}
		for i := 1; i < big; i++ {
			es := []mrepo.Entry{{Mode: 0o40000, Name: "p", Child: ts[i-1]}, {Mode: 0o100755, Name: "x", Child: lv.BlobB}}
			if i >= 2 {
				es = append(es, mrepo.Entry{Mode: 0o40000, Name: "q", Child: ts[i-2]})
			}
			if i%3 == 0 {
				es = append(es, mrepo.Entry{Mode: 0o40000, Name: "r", Child: ts[0]}, mrepo.Entry{Mode: 0o120000, Name: "l", Child: lv.LinkTarget})
			}
			ts = append(ts, r.AddTree(es))
		}
		reach := oracle.Compute(r, ts)
		want := reach.Numbers()
		blobs := []mrepo.ID{lv.BlobA, lv.BlobB, lv.LinkTarget}
		c09SetSearch(sh, fmt.Sprintf("graph-api shared DAG of %d trees", big), big,
			func(order []int) (*sizes.Graph, any) {
				ids := make([]mrepo.ID, len(order))
				for i, o := range order {
					ids[i] = ts[o]
				}
				return graphWithTrees(r, blobs, ids)
			},
			func(g *sizes.Graph) string {
				hs := g.HistorySize()
				got := inprocNumbers(&hs)
				for _, key := range checkoutKeys {
					if got[key] != want[key] {
						return fmt.Sprintf("%s: %d, true %d", key, got[key], want[key])
					}
				}
				return ""
			})
		sh.C.Sample(6, map[string]any{"part": "explicit-state search at the Graph API", "trees": big, "states": "delivered sets (2^k)", "transitions": "k*2^(k-1), each = replay of one path on a fresh Graph + one delivery"})
	}
	// (2b) wide trees: 255/256/257/300 entries pointing at one child and at distinct children
	for _, width := range []int{255, 256, 257, 300} {
		for _, distinct := range []bool{false, true} {
			*idx++
			if !sh.Mine(*idx) || sh.Expired() {
				continue
			}
			r := mrepo.New()
			lv := gen.AddLeaves(r)
			var ts []mrepo.ID
			var es []mrepo.Entry
			nchild := 1
			if distinct {
				nchild = 3
			}
			for c := 0; c < nchild; c++ {
				ts = append(ts, r.AddTree([]mrepo.Entry{{Mode: 0o100644, Name: fmt.Sprintf("f%d", c), Child: lv.BlobA}}))
			}
			for i := 0; i < width; i++ {
				es = append(es, mrepo.Entry{Mode: 0o40000, Name: fmt.Sprintf("d%03d", i), Child: ts[i%nchild]})
			}
			wide := r.AddTree(es)
			ts = append(ts, wide, r.AddTree([]mrepo.Entry{{Mode: 0o40000, Name: "w", Child: wide}}))
			want := oracle.Compute(r, ts).Numbers()
			blobs := []mrepo.ID{lv.BlobA}
			c09SetSearch(sh, fmt.Sprintf("graph-api wide tree width=%d children=%d", width, nchild), len(ts),
				func(order []int) (*sizes.Graph, any) {
					ids := make([]mrepo.ID, len(order))
					for i, o := range order {
						ids[i] = ts[o]
					}
					return graphWithTrees(r, blobs, ids)
				},
				func(g *sizes.Graph) string {
					hs := g.HistorySize()
					got := inprocNumbers(&hs)
					for _, key := range append(append([]string(nil), checkoutKeys...), "unique_tree_count", "unique_tree_entries") {
						if got[key] != want[key] {
							return fmt.Sprintf("%s: %d, true %d", key, got[key], want[key])
						}
					}
					return ""
				})
		}
	}
	// (3) tag forests
	m := 5
	if sh.Tier == "thorough" {
		m = 6
	}
	gen.TagForests(m, func(r *mrepo.Repo, tags []mrepo.ID, targets []int) bool {
		*idx++
		if !sh.Mine(*idx) {
			return true
		}
		if sh.Expired() {
			return false
		}
		want := oracle.Compute(r, tags).Numbers()
		c09SetSearch(sh, fmt.Sprintf("graph-api tags targets=%v", targets), m,
			func(order []int) (*sizes.Graph, any) {
				ids := make([]mrepo.ID, len(order))
				for i, o := range order {
					ids[i] = tags[o]
				}
				return graphWithTags(r, ids)
			},
			func(g *sizes.Graph) string {
				hs := g.HistorySize()
				got := inprocNumbers(&hs)
				for _, key := range []string{"max_tag_depth", "unique_tag_count"} {
					if got[key] != want[key] {
						return fmt.Sprintf("%s: %d, true %d", key, got[key], want[key])
					}
				}
				return ""
			})
		return true
	})
}
