package checks

import (
	"bytes"
	"encoding/json"
	"fmt"
	"os"
	"os/exec"
	"regexp"
	"strconv"
	"strings"
	"time"

	"github.com/github/git-sizer/meter"
	"github.com/github/git-sizer/sizes"
	"verifsched"
	vsync "verifsched/sync"

	"verif/explore"
	"verif/gen"
	"verif/inproc"
	"verif/modelgit"
	"verif/mrepo"
	"verif/oracle"
)

// c18Writer records every Write (one per Fprintf) of the meter; markers from
// the worker thread are interleaved so that the oracle knows phase boundaries.
type c18Writer struct{ frames []string }

func (w *c18Writer) Write(b []byte) (int, error) {
	// an observable effect is a scheduling point too: without it a write that
	// follows an Unlock would be atomic with the Unlock
	verifsched.Yield("write", 0)
	w.frames = append(w.frames, string(b))
	return len(b), nil
}

// a frame: "<phase>: <count>", then spinner and padding (layout, not checked), then CR or LF
var frameRE = regexp.MustCompile(`(?s)^([A-Z]): (-?\d+)(\s.*?)?([\r\n])$`)

// c18Oracle checks the frame sequence of one execution. incs[phase] is the
// number of Inc calls of that phase.
func c18Oracle(frames []string, incs map[string]int) string {
	started := map[string]bool{}
	final := map[string]bool{}
	last := map[string]int{}
	for _, f := range frames {
		if strings.HasPrefix(f, "#start ") {
			started[f[7:]] = true
			continue
		}
		if strings.HasPrefix(f, "#done ") {
			continue
		}
		m := frameRE.FindStringSubmatch(f)
		if m == nil {
			return fmt.Sprintf("unparsable frame %q", f)
		}
		ph := m[1]
		n, _ := strconv.Atoi(m[2])
		if !started[ph] {
			return fmt.Sprintf("frame %q of phase %s before its Start", f, ph)
		}
		if final[ph] {
			return fmt.Sprintf("frame %q appears after phase %s's final line", f, ph)
		}
		if n < last[ph] {
			return fmt.Sprintf("count goes down within phase %s: %d after %d", ph, n, last[ph])
		}
		if n > incs[ph] {
			return fmt.Sprintf("phase %s shows %d, more than the %d items processed", ph, n, incs[ph])
		}
		last[ph] = n
		if m[4] == "\n" {
			if n != incs[ph] {
				return fmt.Sprintf("final line of phase %s carries %d, %d items were processed", ph, n, incs[ph])
			}
			final[ph] = true
		}
	}
	for ph := range incs {
		if !final[ph] {
			return fmt.Sprintf("phase %s has no final line", ph)
		}
	}
	return ""
}

type c18Scenario struct {
	name   string
	phases []struct {
		ph   string
		incs int
	}
	// workers > 1: the increments of each phase are shared out among that many
	// scheduler threads (main joins them through the scheduler's WaitGroup)
	workers int
}

// c18Body is one execution: the phases in turn, Start / incs x Inc / Done.
func c18Body(sc c18Scenario, wp **c18Writer) func() {
	return func() {
		w := &c18Writer{}
		*wp = w
		p := meter.NewProgressMeter(w, time.Hour)
		for _, ph := range sc.phases {
			w.frames = append(w.frames, "#start "+ph.ph)
			p.Start(ph.ph + ": %d")
			if sc.workers > 1 {
				var wg vsync.WaitGroup
				for k := 0; k < sc.workers; k++ {
					wg.Add(1)
					n := ph.incs / sc.workers
					verifsched.Go(func() {
						defer wg.Done()
						for i := 0; i < n; i++ {
							p.Inc()
						}
					})
				}
				wg.Wait()
			} else {
				for i := 0; i < ph.incs; i++ {
					p.Inc()
				}
			}
			p.Done()
			w.frames = append(w.frames, "#done "+ph.ph)
		}
	}
}

func c18Scenarios(tier string) []c18Scenario {
	mk := func(name string, spec ...any) c18Scenario {
		s := c18Scenario{name: name}
		for i := 0; i < len(spec); i += 2 {
			s.phases = append(s.phases, struct {
				ph   string
				incs int
			}{spec[i].(string), spec[i+1].(int)})
		}
		return s
	}
	out := []c18Scenario{
		// two goroutines counting in the same phase (Inc/Add are documented as
		// safe for that): no increment may be lost
		{name: "A2+2 (two workers)", phases: []struct {
			ph   string
			incs int
		}{{"A", 4}}, workers: 2},
		mk("A2 B1", "A", 2, "B", 1),
		mk("A0 B2 C0", "A", 0, "B", 2, "C", 0),
		mk("A1", "A", 1),
	}
	if tier == "thorough" {
		out = append(out, mk("A2 B2 C1", "A", 2, "B", 2, "C", 1))
	}
	return out
}

// c18Race: auxiliary free-running pass under the race detector (sampling; a
// report is a genuine race, silence is not evidence).
func c18Race(sh *explore.Shard) {
	if sh.I != 0 && sh.Only < 0 {
		return
	}
	exe := "/verif/.build/meterrace"
	if _, err := os.Stat(exe); err != nil {
		sh.C.Violate(explore.Violation{Property: "C18", Class: "HARNESS/no-race-build", Msg: "the -race build of the meter driver is missing: " + err.Error(), Case: caseJSON(1<<21, nil)})
		return
	}
	runs := 2
	if sh.Tier == "thorough" {
		runs = 6
	}
	for i := 0; i < runs; i++ {
		cmd := exec.Command(exe, "200000")
		cmd.Env = append(os.Environ(), "GORACE=halt_on_error=1 exitcode=66", fmt.Sprintf("GOMAXPROCS=%d", []int{4, 2, 16, 8, 3, 1}[i%6]))
		var eb bytes.Buffer
		cmd.Stderr = &eb
		err := cmd.Run()
		sh.C.Add("race_detector_runs", 1)
		if bytes.Contains(eb.Bytes(), []byte("DATA RACE")) {
			sh.C.Violate(explore.Violation{Property: "C18", Class: "race", Confirmed: true, Msg: "the race detector reports a data race in the progress meter (worker calling Inc/Add while the ticker goroutine reports): " + tailBytes(eb.Bytes(), 1500), Case: caseJSON(1<<21, map[string]any{"what": "meterrace"})})
			return
		}
		if err != nil {
			sh.C.Violate(explore.Violation{Property: "C18", Class: "HARNESS/meterrace", Msg: "the meter driver failed: " + err.Error() + " " + tailBytes(eb.Bytes(), 500), Case: caseJSON(1<<21, nil)})
			return
		}
	}
}

func c18Worker(sh *explore.Shard) {
	defer c18EndToEnd(sh)
	defer c18Race(sh)
	bound, ticks := 3, 2
	if sh.Tier == "thorough" {
		bound, ticks = 4, 3
	}
	var w *c18Writer
	for si, sc := range c18Scenarios(sh.Tier) {
		sc := sc
		incs := map[string]int{}
		for _, p := range sc.phases {
			incs[p.ph] = p.incs
		}
		body := c18Body(sc, &w)
		// probe: is this the scheduler build, and which objects are shared?
		probe := verifsched.Run(body, nil, verifsched.Sched{TicksPerTicker: ticks})
		if len(probe.Points) == 0 && sh.I == 0 && si == 0 {
			sh.C.Violate(explore.Violation{Property: "C18", Class: "HARNESS/not-sched-build", Msg: "meter.go is not routed through the scheduler in this build", Case: caseJSON(0, nil)})
			return
		}
		// determinism of replay: the same schedule twice gives the same observation
		a := verifsched.Run(body, probe.Choices, verifsched.Sched{TicksPerTicker: ticks})
		fa := strings.Join(w.frames, "|")
		b := verifsched.Run(body, a.Choices, verifsched.Sched{TicksPerTicker: ticks})
		fb := strings.Join(w.frames, "|")
		if fa != fb && sh.I == 0 {
			sh.C.Violate(explore.Violation{Property: "C18", Class: "HARNESS/replay", Msg: "replaying one schedule twice gave different observations", Case: caseJSON(0, nil)})
		}
		_ = b
		outcomes := map[string]bool{}
		mkEx := func(preemption bool, b int) *verifsched.Explorer {
			ex := &verifsched.Explorer{Body: body, Cfg: verifsched.Sched{TicksPerTicker: ticks}, Bound: b, Preemption: preemption, ShardI: sh.I, ShardN: sh.N,
				Stop: sh.Expired,
				Check: func(x *verifsched.Sched) string {
					outcomes[strings.Join(w.frames, "|")] = true
					return c18Oracle(w.frames, incs)
				}}
			if sh.Only >= 0 {
				ex.ShardI, ex.ShardN = 0, 1
			}
			return ex
		}
		ex := mkEx(false, bound)
		ex.Run()
		sh.C.Evals += ex.Executions
		sh.C.Nontrivial += ex.Deviating
		sh.C.States += int64(len(outcomes)) // distinct observable end states (frame sequences)
		sh.C.Transitions += ex.Transitions
		for o := range outcomes {
			sh.C.Outcome(fmt.Sprintf("%d:%s", si, o))
		}
		if ex.Capped {
			sh.C.CapsHit = append(sh.C.CapsHit, "time budget reached in scenario "+sc.name)
			sh.C.Exhaustive = false
		}
		for _, v := range ex.Violations {
			// confirm by replaying the recorded schedule twice
			r1 := verifsched.Run(body, v.Choices, verifsched.Sched{TicksPerTicker: ticks})
			m1 := c18Oracle(w.frames, incs)
			f1 := append([]string(nil), w.frames...)
			verifsched.Run(body, v.Choices, verifsched.Sched{TicksPerTicker: ticks})
			m2 := c18Oracle(w.frames, incs)
			class := "frames"
			if strings.HasPrefix(v.Msg, "HARNESS") || m1 != m2 || (m1 == "" && r1.PanicValue == nil && !r1.Deadlock && !r1.Horizon) {
				class = "HARNESS/unstable-replay"
			}
			sh.C.Violate(explore.Violation{Property: "C18", Class: class, Confirmed: class == "frames", Msg: fmt.Sprintf("%s [scenario %s, schedule %v]", v.Msg, sc.name, v.Choices),
				Case: caseJSON(int64(si), map[string]any{"scenario": sc.name, "schedule": v.Choices, "bound": bound, "ticks": ticks}), Detail: strings.Join(f1, "\n")})
		}
		if sh.I == 0 {
			sh.C.Sample(4, map[string]any{"scenario": sc.name, "bound": bound, "ticks_per_ticker": ticks, "scheduling_points_default_run": len(probe.Points), "default_frames": strings.Split(fa, "|")})
		}
	}
}

// c18EndToEnd scans model repositories in-process with the real progress meter
// (period one hour: only final lines) and compares each phase's final count
// with the census of the oracle.
func c18EndToEnd(sh *explore.Shard) {
	install()
	var idx int64 = 1 << 20
	finalRE := regexp.MustCompile(`(?m)^(Processing blobs|Processing trees|Processing commits|Matching commits to trees|Processing annotated tags|Processing references): (\d+) +\n`)
	one := func(sc *gen.Scenario, style sizes.NameStyle) {
		w := &c18Writer{}
		pm := meter.NewProgressMeter(w, time.Hour)
		res := inproc.Scan(modelgit.NewEnv(sc.Repo, &modelgit.Plan{}), inproc.SimpleGrouper{Walk: sc.Walks}, sc.Explicit, style, pm)
		sh.C.Evals++
		sh.C.Nontrivial++
		mk := func(msg string) {
			sh.C.Violate(explore.Violation{Property: "C18", Class: "final-count", Msg: msg + " [" + sc.Desc + "]", Case: caseJSON(sh.Index(), map[string]any{"desc": sc.Desc}), Detail: sc.Repo.Describe()})
		}
		if res.Err != nil || res.Panic != nil {
			mk(fmt.Sprintf("scan failed: %v %v", res.Err, res.Panic))
			return
		}
		orc := oracle.Compute(sc.Repo, sc.Roots())
		want := map[string]uint64{"Processing blobs": orc.Blobs.V, "Processing trees": orc.Trees.V, "Processing commits": orc.Commits.V,
			"Processing annotated tags": orc.Tags.V, "Processing references": uint64(len(res.Roots))}
		if style != sizes.NameStyleNone {
			want["Matching commits to trees"] = orc.Commits.V
		}
		got := map[string]uint64{}
		for _, m := range finalRE.FindAllStringSubmatch(strings.Join(w.frames, ""), -1) {
			n, _ := strconv.ParseUint(m[2], 10, 64)
			if _, dup := got[m[1]]; dup {
				mk("two final lines for phase " + m[1])
			}
			got[m[1]] = n
		}
		for ph, n := range want {
			if g, ok := got[ph]; !ok {
				mk("no final progress line for phase '" + ph + "'")
			} else if g != n {
				mk(fmt.Sprintf("final line of '%s' carries %d, the census says %d", ph, g, n))
			}
		}
		for ph := range got {
			if _, ok := want[ph]; !ok {
				mk("unexpected phase '" + ph + "'")
			}
		}
	}
	for nn := 1; nn <= 3; nn++ {
		gen.CommitDAGs(nn, func(r *mrepo.Repo, commits []mrepo.ID, masks []uint) bool {
			idx++
			if !sh.Mine(idx) || sh.Expired() {
				return true
			}
			rr := *r
			rr.Refs = nil
			for c, id := range commits {
				rr.SetRef(fmt.Sprintf("refs/heads/b%d", c), id)
			}
			for _, style := range []sizes.NameStyle{sizes.NameStyleFull, sizes.NameStyleHash, sizes.NameStyleNone} {
				one(&gen.Scenario{Repo: &rr, Desc: fmt.Sprintf("dag n=%d masks=%v style=%v (all commits share one root tree)", nn, masks, style)}, style)
			}
			return true
		})
	}
	mixedScenarios("quick", func(r *mrepo.Repo, special map[string]mrepo.ID, desc string) bool {
		idx++
		if !sh.Mine(idx) || sh.Expired() {
			return true
		}
		one(&gen.Scenario{Repo: r, Explicit: [][2]string{{"blobC", string(special["blobC"])}}, Desc: desc}, sizes.NameStyleFull)
		// partial selections: a reference that is not walked is still processed
		// (registered and tallied) in the references phase; ROOT only: none is walked
		nr := len(r.Refs)
		for _, mask := range []uint{1, uint(1)<<uint(nr-1) | 2, 0} {
			walk := map[string]bool{}
			for i, ref := range r.Refs {
				if mask&(1<<uint(i)) != 0 {
					walk[ref.Name] = true
				}
			}
			one(&gen.Scenario{Repo: r, WalkRefs: walk, Explicit: [][2]string{{"c0", string(special["c0"])}}, Desc: fmt.Sprintf("%s refs=%b + ROOT", desc, mask)}, sizes.NameStyleFull)
		}
		return true
	})
	// sizes around internal batch sizes: n distinct blobs/trees/commits/tags for n
	// around 256 and 1024 (one wide tree; a chain of n commits each with its own
	// tree and blob; a chain of n annotated tags)
	for _, n := range []int{255, 256, 257, 258, 513, 1023, 1024, 1025, 1029, 2050} {
		for shape := 0; shape < 3; shape++ {
			idx++
			if !sh.Mine(idx) || sh.Expired() {
				continue
			}
			r := mrepo.New()
			switch shape {
			case 0:
				var es []mrepo.Entry
				for i := 0; i < n; i++ {
					es = append(es, mrepo.Entry{Mode: 0o100644, Name: fmt.Sprintf("f%05d", i), Child: r.AddBlob([]byte(fmt.Sprintf("blob %d", i)))})
				}
				c := r.AddCommit(mrepo.CommitSpec{Tree: r.AddTree(es), Time: gen.T0, Message: "wide\n"})
				r.SetRef("refs/heads/main", c)
			case 1:
				var prev []mrepo.ID
				var c mrepo.ID
				for i := 0; i < n; i++ {
					t := r.AddTree([]mrepo.Entry{{Mode: 0o100644, Name: "f", Child: r.AddBlob([]byte(fmt.Sprintf("v%d", i)))}})
					c = r.AddCommit(mrepo.CommitSpec{Tree: t, Parents: prev, Time: gen.T0 + int64(i), Message: fmt.Sprintf("c%d\n", i)})
					prev = []mrepo.ID{c}
				}
				r.SetRef("refs/heads/main", c)
			case 2:
				b := r.AddBlob([]byte("x"))
				t := r.AddTree([]mrepo.Entry{{Mode: 0o100644, Name: "f", Child: b}})
				cur := r.AddCommit(mrepo.CommitSpec{Tree: t, Time: gen.T0, Message: "c\n"})
				for i := 0; i < n; i++ {
					cur = r.AddTag(mrepo.TagSpec{Target: cur, Name: fmt.Sprintf("t%d", i), Time: gen.T0, Message: "t\n"})
					if i%100 == 0 {
						r.SetRef(fmt.Sprintf("refs/tags/mid%d", i), cur)
					}
				}
				r.SetRef("refs/tags/top", cur)
			}
			one(&gen.Scenario{Repo: r, Desc: fmt.Sprintf("%d objects, shape %d (0 wide tree, 1 commit chain, 2 tag chain)", n, shape)}, sizes.NameStyleFull)
		}
	}
}

// c18Replay re-executes one recorded schedule (no exploration).
func c18Replay(caseJSON []byte) (string, error) {
	var c struct {
		Scenario string `json:"scenario"`
		Schedule []int  `json:"schedule"`
		Ticks    int    `json:"ticks"`
		Desc     string `json:"desc"`
	}
	if err := json.Unmarshal(caseJSON, &c); err != nil {
		return "", err
	}
	if c.Scenario == "" {
		return "", ErrUseWorker
	}
	for _, tier := range []string{"quick", "thorough"} {
		for _, sc := range c18Scenarios(tier) {
			if sc.name != c.Scenario {
				continue
			}
			incs := map[string]int{}
			for _, p := range sc.phases {
				incs[p.ph] = p.incs
			}
			var w *c18Writer
			body := c18Body(sc, &w)
			x := verifsched.Run(body, c.Schedule, verifsched.Sched{TicksPerTicker: c.Ticks, Trace: true})
			fmt.Println("frames written under the recorded schedule:")
			for _, f := range w.frames {
				fmt.Printf("  %q\n", f)
			}
			switch {
			case x.Diverged != "":
				return "", fmt.Errorf("the recorded schedule does not fit the current code: %s", x.Diverged)
			case x.PanicValue != nil:
				return fmt.Sprintf("panic: %v", x.PanicValue), nil
			case x.Deadlock:
				return "deadlock", nil
			}
			return c18Oracle(w.frames, incs), nil
		}
	}
	return "", fmt.Errorf("unknown scenario %q", c.Scenario)
}

func c18Parent(prop, tier string) int {
	start := time.Now()
	ck := Registry["C18"]
	budget := ck.QuickBudget
	if tier == "thorough" {
		budget = ck.ThoroughBudget
	}
	exe := "/verif/.build/vcheck-sched"
	if _, err := os.Stat(exe); err != nil {
		fmt.Println("HARNESS-ERROR: scheduler build missing:", err)
		return 2
	}
	total, crashes, err := explore.RunSharded(explore.Options{Property: prop, Tier: tier, Shards: 16, Budget: budget, Horizon: budget + 30*time.Minute, Exe: exe})
	if err != nil {
		fmt.Println("HARNESS-ERROR:", err)
		return 2
	}
	ck2 := *ck
	ck2.Parent = nil
	return Finish("/verif", prop, tier, &ck2, total, crashes, start)
}

func init() {
	Registry["C18"] = &Check{Level: "model_checking", Worker: c18Worker, Parent: c18Parent, ReplayExe: "/verif/.build/vcheck-sched", Replay: c18Replay, QuickBudget: 60 * time.Second, ThoroughBudget: 10 * time.Minute,
		Rule:        "the real meter/meter.go, mechanically rewritten from its current text so that every mutex, atomic, channel, select, close, ticker and go statement is a scheduling point of a cooperative scheduler (one logical thread at a time), as is every write to the meter's writer; threads: the worker (Start/Inc*/Done per phase; one scenario with two workers counting in the same phase), every ticker goroutine the code spawns, one environment thread per ticker offering 2 (quick) / 3 (thorough) ticks; ALL schedules with at most 3 (quick) / 4 (thorough) deviations from the default schedule are executed; oracle on the byte frames written to the meter's writer: exactly one LF-terminated frame per phase carrying the number of Inc calls, counts within a phase never decrease and never exceed the final count, no frame of a phase after its final line or before its Start; deadlock, panic and step-horizon are violations; every violation is confirmed by replaying its schedule twice. end-to-end: in-process scans of all commit DAGs n<=3 (all commits sharing one root tree) and the mixed family (all references walked, partial selections with a ROOT, ROOT only) and repositories of 255..2050 distinct blobs / commits+trees+blobs / chained tags (sizes around internal batch sizes) with the real meter: each phase's final line must carry the census count of its kind (references phase: number of roots processed, walked or not). auxiliary: 2 (6) free-running runs of a -race build of a driver that increments flat out while the meter's ticker reports every 20 us / 1 ms (a report is a violation, silence is not evidence). states = distinct frame sequences observed; transitions = scheduling steps; non-trivial = executions whose schedule contains at least one deviation (every explored schedule is distinct)",
		Assumptions: []string{"scheduling points sit at synchronisation operations: an unsynchronised access is invisible to the explorer (data races are looked for by the separate free-running -race passes of C17 and C18, which are sampling and decide nothing by silence)", "ticks beyond the per-ticker bound are not explored"}}
}
