package checks

import (
	"bytes"
	"encoding/json"
	"fmt"
	"os"
	"os/exec"
	"path/filepath"
	"sort"
	"strings"
	"time"
	"unicode/utf8"

	"github.com/github/git-sizer/sizes"

	"verif/cli"
	"verif/explore"
	"verif/gen"
	"verif/inproc"
	"verif/modelgit"
	"verif/mrepo"
	"verif/realgit"
	"verif/refmodel"
)

// ---------------------------------------------------------------- strict RFC 8259 validator

type jsonV struct {
	s   []byte
	i   int
	err string
	// keys collects the member names of the top-level object and of nested objects (path-joined)
	keys map[string]bool
}

func (v *jsonV) fail(msg string) {
	if v.err == "" {
		v.err = fmt.Sprintf("%s at offset %d", msg, v.i)
	}
}

func (v *jsonV) ws() {
	for v.i < len(v.s) && (v.s[v.i] == ' ' || v.s[v.i] == '\t' || v.s[v.i] == '\n' || v.s[v.i] == '\r') {
		v.i++
	}
}

func (v *jsonV) value(path string) {
	v.ws()
	if v.i >= len(v.s) {
		v.fail("unexpected end")
		return
	}
	switch c := v.s[v.i]; {
	case c == '{':
		v.i++
		v.ws()
		if v.i < len(v.s) && v.s[v.i] == '}' {
			v.i++
			return
		}
		seen := map[string]bool{}
		for v.err == "" {
			v.ws()
			k := v.str()
			if seen[k] {
				v.fail("duplicate member " + k)
			}
			seen[k] = true
			v.keys[path+"/"+k] = true
			v.ws()
			if v.i >= len(v.s) || v.s[v.i] != ':' {
				v.fail("expected ':'")
				return
			}
			v.i++
			v.value(path + "/" + k)
			v.ws()
			if v.i < len(v.s) && v.s[v.i] == ',' {
				v.i++
				continue
			}
			if v.i < len(v.s) && v.s[v.i] == '}' {
				v.i++
				return
			}
			v.fail("expected ',' or '}'")
		}
	case c == '[':
		v.i++
		v.ws()
		if v.i < len(v.s) && v.s[v.i] == ']' {
			v.i++
			return
		}
		for v.err == "" {
			v.value(path + "[]")
			v.ws()
			if v.i < len(v.s) && v.s[v.i] == ',' {
				v.i++
				continue
			}
			if v.i < len(v.s) && v.s[v.i] == ']' {
				v.i++
				return
			}
			v.fail("expected ',' or ']'")
		}
	case c == '"':
		v.str()
	case c == '-' || (c >= '0' && c <= '9'):
		v.num()
	default:
		for _, lit := range []string{"true", "false", "null"} {
			if strings.HasPrefix(string(v.s[v.i:]), lit) {
				v.i += len(lit)
				return
			}
		}
		v.fail("unexpected character")
	}
}

func (v *jsonV) str() string {
	if v.i >= len(v.s) || v.s[v.i] != '"' {
		v.fail("expected string")
		return ""
	}
	v.i++
	start := v.i
	for v.i < len(v.s) {
		c := v.s[v.i]
		switch {
		case c == '"':
			raw := v.s[start:v.i]
			if !utf8.Valid(raw) {
				v.fail("string is not valid UTF-8")
			}
			v.i++
			return string(raw)
		case c < 0x20:
			v.fail("unescaped control character in string")
			return ""
		case c == '\\':
			if v.i+1 >= len(v.s) {
				v.fail("dangling backslash")
				return ""
			}
			e := v.s[v.i+1]
			switch e {
			case '"', '\\', '/', 'b', 'f', 'n', 'r', 't':
				v.i += 2
			case 'u':
				if v.i+6 > len(v.s) {
					v.fail("short \\u escape")
					return ""
				}
				for _, h := range v.s[v.i+2 : v.i+6] {
					if !(h >= '0' && h <= '9' || h >= 'a' && h <= 'f' || h >= 'A' && h <= 'F') {
						v.fail("bad \\u escape")
						return ""
					}
				}
				v.i += 6
			default:
				v.fail(fmt.Sprintf("invalid escape \\%c", e))
				return ""
			}
		default:
			v.i++
		}
	}
	v.fail("unterminated string")
	return ""
}

func (v *jsonV) num() {
	if v.s[v.i] == '-' {
		v.i++
	}
	if v.i >= len(v.s) {
		v.fail("bad number")
		return
	}
	if v.s[v.i] == '0' {
		v.i++
	} else if v.s[v.i] >= '1' && v.s[v.i] <= '9' {
		for v.i < len(v.s) && v.s[v.i] >= '0' && v.s[v.i] <= '9' {
			v.i++
		}
	} else {
		v.fail("bad number")
		return
	}
	if v.i < len(v.s) && v.s[v.i] == '.' {
		v.i++
		n := 0
		for v.i < len(v.s) && v.s[v.i] >= '0' && v.s[v.i] <= '9' {
			v.i++
			n++
		}
		if n == 0 {
			v.fail("bad fraction")
		}
	}
	if v.i < len(v.s) && (v.s[v.i] == 'e' || v.s[v.i] == 'E') {
		v.i++
		if v.i < len(v.s) && (v.s[v.i] == '+' || v.s[v.i] == '-') {
			v.i++
		}
		n := 0
		for v.i < len(v.s) && v.s[v.i] >= '0' && v.s[v.i] <= '9' {
			v.i++
			n++
		}
		if n == 0 {
			v.fail("bad exponent")
		}
	}
}

// StrictJSON validates b as one RFC 8259 JSON text and returns its member paths.
func StrictJSON(b []byte) (map[string]bool, string) {
	v := &jsonV{s: b, keys: map[string]bool{}}
	v.value("")
	v.ws()
	if v.err == "" && v.i != len(v.s) {
		v.fail("trailing data")
	}
	return v.keys, v.err
}

// ---------------------------------------------------------------- the check

var c19Special = []string{" ", "\"", "'", "\\", "\t", "\n", "\r", "\x01", "\x7f", "\xff\xfe", "é", ":", "-", "[1]", "%d", "{", "}", "%s%!(EXTRA", " ",
	// what encoding/json escapes for HTML's sake, and text that looks like the escapes it produces
	"<", ">", "&", "\\u0026", "\\u003c", "\\n", "\\\""}

func c19Names(tier string) []string {
	var out []string
	for _, s := range c19Special {
		out = append(out, s, s+"a", "a"+s+"b", "a"+s)
	}
	lens := []int{255, 256, 4096}
	if tier == "thorough" {
		lens = append(lens, 65494, 65495, 70000)
	} else {
		lens = append(lens, 65494, 65495)
	}
	for _, l := range lens {
		out = append(out, strings.Repeat("n", l))
	}
	var ok []string
	for _, n := range out {
		if n != "." && n != ".." && n != ".git" && !strings.Contains(n, "/") && n != "" {
			ok = append(ok, n)
		}
	}
	return ok
}

// refNameOK is the harness's copy of git check-ref-format for one path
// component; it is validated against real git on the whole alphabet by c19Worker.
func refNameOK(comp string) bool {
	if comp == "" || strings.HasPrefix(comp, ".") || strings.HasSuffix(comp, ".lock") || strings.HasSuffix(comp, ".") || comp == "@" {
		return false
	}
	if strings.Contains(comp, "..") || strings.Contains(comp, "@{") {
		return false
	}
	for i := 0; i < len(comp); i++ {
		c := comp[i]
		if c < 0x20 || c == 0x7f || strings.IndexByte(" ~^:?*[\\", c) >= 0 {
			return false
		}
	}
	return true
}

// keySkeleton drops per-refgroup members and (for v1) nothing else.
func keySkeleton(keys map[string]bool) string {
	var ks []string
	for k := range keys {
		if strings.HasPrefix(k, "/reference_groups/") || strings.HasPrefix(k, "/refgroup.") {
			continue
		}
		ks = append(ks, k)
	}
	sort.Strings(ks)
	return strings.Join(ks, "\n")
}

func c19Scenario(dirName, fileName, refComp string) *gen.Scenario {
	r := mrepo.New()
	lv := gen.AddLeaves(r)
	sub := r.AddTree([]mrepo.Entry{{Mode: 0o100644, Name: fileName, Child: lv.BlobC}, {Mode: 0o120000, Name: "l", Child: lv.LinkTarget}})
	top := r.AddTree([]mrepo.Entry{{Mode: 0o40000, Name: dirName, Child: sub}, {Mode: 0o100644, Name: "plain", Child: lv.BlobA}})
	c0 := r.AddCommit(mrepo.CommitSpec{Tree: top, Time: gen.T0, Message: "c\n"})
	tg := r.AddTag(mrepo.TagSpec{Target: c0, Name: "v", Time: gen.T0, Message: "t\n"})
	r.SetRef("refs/heads/"+refComp, c0)
	r.SetRef("refs/tags/"+refComp, tg)
	r.Head = "ref: refs/heads/" + refComp
	return &gen.Scenario{Repo: r, Desc: fmt.Sprintf("dir=%q file=%q ref=%q", clip(dirName), clip(fileName), clip(refComp))}
}

// sameRendering compares what the real binary printed with the in-process
// rendering of the same scan, ignoring what is layout and not content: white
// space between JSON tokens (member order is kept), column widths and padding
// of the table.
func sameRendering(isJSON bool, got []byte, want string) bool {
	if string(got) == want {
		return true
	}
	if isJSON {
		var a, b bytes.Buffer
		if json.Compact(&a, got) != nil || json.Compact(&b, []byte(want)) != nil {
			return false
		}
		return a.String() == b.String()
	}
	return normTable(string(got)) == normTable(want)
}

func clip(s string) string {
	if len(s) > 40 {
		return fmt.Sprintf("%s...(%d bytes)", s[:20], len(s))
	}
	return s
}

func c19Worker(sh *explore.Shard) {
	install()
	cliDir := scratch("c19")
	defer os.RemoveAll(cliDir)
	names := c19Names(sh.Tier)
	var idx int64
	// the reference-name rule is validated against real git on the whole alphabet
	idx++
	if sh.Mine(idx) {
		for _, n := range names {
			if len(n) > 4096 {
				continue
			}
			cmd := exec.Command(realgit.GitBin, "check-ref-format", "refs/heads/"+n)
			cmd.Env = realgit.CleanEnv("/nonexistent-home")
			err := cmd.Run()
			sh.C.Validated++
			if (err == nil) != refNameOK(n) {
				sh.C.Violate(explore.Violation{Property: "C19", Class: "HARNESS/refname-rule", Msg: fmt.Sprintf("check-ref-format disagrees with the harness rule on %q (git ok=%v)", n, err == nil), Case: caseJSON(idx, nil)})
			}
		}
	}
	// plain-name baseline key sets
	base := c19Scenario("dir", "file", "main")
	baseRG, _ := realGrouper(nil, nil, false)
	bres := inproc.Scan(modelgit.NewEnv(base.Repo, &modelgit.Plan{}), baseRG, nil, sizes.NameStyleFull, nil)
	bj1, _ := json.MarshalIndent(bres.HS, "", "    ")
	bj2, _ := bres.HS.JSON(baseRG.Groups(), 0, sizes.NameStyleFull)
	bk1, e1 := StrictJSON(bj1)
	bk2, e2 := StrictJSON(bj2)
	if e1 != "" || e2 != "" {
		panic("baseline JSON invalid: " + e1 + e2)
	}
	// ROOT-only runs (no reference is walked, the ROOT spelling is the only name
	// the objects have): their own plain-spelling baseline
	noneRG, _ := realGrouper(nil, nil, true)
	rres := inproc.Scan(modelgit.NewEnv(base.Repo, &modelgit.Plan{}), noneRG, [][2]string{{"main", string(base.Repo.Refs[0].ID)}}, sizes.NameStyleFull, nil)
	rj1, _ := json.MarshalIndent(rres.HS, "", "    ")
	rj2, _ := rres.HS.JSON(noneRG.Groups(), 0, sizes.NameStyleFull)
	rk1, e1 := StrictJSON(rj1)
	rk2, e2 := StrictJSON(rj2)
	if e1 != "" || e2 != "" || rres.Err != nil {
		panic("ROOT-only baseline invalid: " + e1 + e2 + fmt.Sprint(rres.Err))
	}
	allK1, allK2 := bk1, bk2
	rootOnly := false
	one := func(sc *gen.Scenario, cfg []refmodel.ConfigEntry, rootName string) {
		sh.C.Evals++
		bk1, bk2 := allK1, allK2
		if rootOnly {
			bk1, bk2 = rk1, rk2
		}
		mk := func(class, msg string) {
			sh.C.Violate(explore.Violation{Property: "C19", Class: class, Msg: msg + " [" + sc.Desc + "]", Case: caseJSON(sh.Index(), map[string]any{"desc": sc.Desc})})
		}
		var rg sizes.RefGrouper = plainGrouper()
		if cfg == nil && rootName == "" {
			// the grouper the real binary uses when no option is given
			if g, err := realGrouper(nil, nil, false); err == nil {
				rg = g
			}
		}
		if cfg != nil {
			g, err := realGrouper(cfg, nil, false)
			if err != nil {
				mk("error", "refgroup configuration rejected: "+err.Error())
				return
			}
			rg = g
		}
		var explicit [][2]string
		if rootName != "" {
			explicit = [][2]string{{rootName, string(sc.Repo.Refs[0].ID)}}
		}
		if rootOnly {
			rg = noneRG
		}
		for _, style := range []sizes.NameStyle{sizes.NameStyleFull, sizes.NameStyleHash, sizes.NameStyleNone} {
			env := modelgit.NewEnv(sc.Repo, &modelgit.Plan{})
			res := inproc.Scan(env, rg, explicit, style, nil)
			if res.Panic != nil {
				mk("panic", fmt.Sprintf("scan panicked: %v", res.Panic))
				return
			}
			if res.Err != nil {
				class := "error"
				if strings.Contains(res.Err.Error(), "token too long") {
					class = "C19-long-path"
				}
				mk(class, "no report: "+res.Err.Error())
				return
			}
			func() {
				defer func() {
					if r := recover(); r != nil {
						mk("panic", fmt.Sprintf("rendering panicked: %v", r))
					}
				}()
				j1, err := json.MarshalIndent(res.HS, "", "    ")
				if err != nil {
					mk("json", "JSON v1 cannot be produced: "+err.Error())
					return
				}
				j2, err := res.HS.JSON(rg.Groups(), 0, style)
				if err != nil {
					mk("json", "JSON v2 cannot be produced: "+err.Error())
					return
				}
				k1, er1 := StrictJSON(j1)
				k2, er2 := StrictJSON(j2)
				if er1 != "" {
					mk("json", "JSON v1 is not valid JSON: "+er1)
				}
				if er2 != "" {
					mk("json", "JSON v2 is not valid JSON: "+er2)
				}
				if style == sizes.NameStyleFull && er1 == "" && er2 == "" {
					if keySkeleton(k1) != keySkeleton(bk1) {
						mk("json-keys", "JSON v1 key set differs from the plain-name run")
					}
					if keySkeleton(k2) != keySkeleton(bk2) {
						mk("json-keys", "JSON v2 key set differs from the plain-name run")
					}
				}
				// the table must be exactly the text its JSON values imply, with
				// footnotes numbered by first citation and shared by equal texts
				nums, _, _ := parseV1(j1)
				var items map[string]v2Item
				json.Unmarshal(j2, &items)
				cites := map[string]string{}
				if style != sizes.NameStyleNone {
					for _, c := range citationsOf(&res.HS) {
						key := ""
						for _, m := range c11Metrics {
							if m.pathKey == c.key {
								key = m.key
							}
						}
						if style == sizes.NameStyleFull {
							cites[key] = c.str
						} else {
							cites[key] = string(c.id)
						}
					}
				}
				var groups []groupRow
				for _, g := range rg.Groups() {
					if g.Symbol == "" {
						continue
					}
					if c, ok := res.HS.ReferenceGroups[g.Symbol]; ok {
						groups = append(groups, groupRow{string(g.Symbol), g.Name, strings.Count(string(g.Symbol), "."), uint64(*c)})
					}
				}
				for _, th := range []float64{0, 1} {
					tab := res.HS.TableString(rg.Groups(), sizes.Threshold(th), style)
					want := expectedTable(nums, items, cites, groups, th)
					if normTable(tab) != normTable(want) {
						mk("table", fmt.Sprintf("style %v threshold %v: citations/footnotes differ from first-citation numbering\n--- actual\n%s--- expected\n%s", style, th, clipText(tab), clipText(want)))
					}
				}
				if style == sizes.NameStyleFull {
					judgeCitations(sh, "C19", sc, env, &res, style, nil)
					// CLI tier: the real binary (model git on PATH) must print exactly
					// these renderings: whatever main does between the scan and stdout
					// is part of the report too
					if cfg == nil && rootName == "" && cliDir != "" && len(sc.Desc) < 200 && (sh.Index()%3 == 0 || strings.Contains(sc.Desc, "u00")) {
						if fsn, err := cli.NewFakeSession(filepath.Join(cliDir, fmt.Sprintf("f%d", sh.Index())), sc.Repo, &modelgit.Plan{GitDir: "/model/.git"}); err == nil {
							for _, run := range []struct {
								args []string
								want string
							}{
								{[]string{"--no-progress", "--json"}, string(j1) + "\n"},
								{[]string{"--no-progress", "--json", "--json-version=2", "-v"}, string(j2) + "\n"},
								{[]string{"--no-progress", "-v"}, res.HS.TableString(rg.Groups(), 0, style)},
							} {
								fsn.SetPlan(&modelgit.Plan{GitDir: "/model/.git"})
								out := cli.Run(cliDir, cli.FakeGitDir, fsn.Env(), 60*time.Second, run.args...)
								sh.C.Validated++
								sh.C.Add("cli_fakegit_runs", 1)
								if u := fakeUnmodelled(fsn); u != "" {
									mk("HARNESS/unmodelled-git-command", "the model git does not implement the read-only command "+u)
								} else if out.Exit != 0 {
									mk("cli-error", fmt.Sprintf("the real binary failed (exit %d) with args %v: %s", out.Exit, run.args, tailBytes(out.Stderr, 300)))
								} else if !sameRendering(run.args[1] == "--json", out.Stdout, run.want) {
									if run.args[1] == "--json" {
										if _, e := StrictJSON(out.Stdout); e != "" {
											mk("json", fmt.Sprintf("stdout of the real binary (args %v) is not valid JSON: %s", run.args, e))
											continue
										}
									}
									mk("cli-differs", fmt.Sprintf("stdout of the real binary (args %v) differs from the rendering of the same scan:\n--- actual\n%s--- expected\n%s", run.args, clipText(string(out.Stdout)), clipText(run.want)))
								}
							}
							os.RemoveAll(fsn.Dir)
						}
					}
				}
			}()
		}
		sh.C.Nontrivial++
		kind := "plain-ascii"
		for _, c := range []byte(sc.Desc) {
			if c < 0x20 || c >= 0x7f || c == '"' || c == '\\' {
				kind = "special-bytes"
			}
		}
		if strings.Contains(sc.Desc, " bytes)") {
			kind = "long"
		}
		sh.C.Outcome(fmt.Sprintf("%s/cfg=%v/root=%v", kind, cfg != nil, rootName != ""))
	}
	// (1) special names in tree entries: every name as directory, as file, and every pair at reduced alphabet
	for i, dn := range names {
		for j, fn := range names {
			if !(i == j || j == 0 || i == 0 || (len(dn) < 8 && len(fn) < 8 && (i+j)%5 == 0) || sh.Tier == "thorough" && len(dn)+len(fn) < 300) {
				continue
			}
			idx++
			if !sh.Mine(idx) || sh.Expired() {
				continue
			}
			one(c19Scenario(dn, fn, "main"), nil, "")
		}
	}
	// (2) reference names (only names git accepts), also as ROOT spelling rev:path
	for _, n := range names {
		if !refNameOK(n) || len(n) > 4096 {
			continue
		}
		idx++
		if !sh.Mine(idx) || sh.Expired() {
			continue
		}
		sc := c19Scenario("dir", "file", n)
		one(sc, nil, "")
		one(sc, nil, "refs/heads/"+n+":dir")
	}
	// (3) ROOT spellings with special path components
	for _, n := range names {
		if len(n) > 4096 {
			continue
		}
		idx++
		if !sh.Mine(idx) || sh.Expired() {
			continue
		}
		sc := c19Scenario(n, "file", "main")
		// an explicit ROOT spelled <rev>:<name> (it names the commit's id here;
		// only the spelling matters for the report)
		one(sc, nil, "main:"+n)
	}
	// (5) ROOT as the only root (no reference walked), in every spelling of a
	// revision: the key set must not depend on how the ROOT is spelled
	{
		sc := c19Scenario("dir", "file", "main")
		c0 := string(sc.Repo.Refs[0].ID)
		// (the short name "main" is ambiguous here, refs/tags/main exists as well and
		// git prefers it: the branch is spelled heads/main)
		spellings := []string{c0, c0[:7], c0[:12], "HEAD", "@", "heads/main", "heads/main~0", "heads/main^{commit}", "refs/heads/main", "refs/heads/main^0", "main^{}", "main^0", "tags/main^{commit}", "refs/tags/main^{}"}
		for _, sp := range spellings {
			idx++
			if !sh.Mine(idx) || sh.Expired() {
				continue
			}
			sc.Desc = fmt.Sprintf("ROOT %q as the only root", sp)
			rootOnly = true
			one(sc, nil, sp)
			rootOnly = false
		}
	}
	// (4) refgroup symbols and display names
	for _, n := range names {
		if strings.ContainsAny(n, "\n\x00") || len(n) > 4096 {
			continue
		}
		idx++
		if !sh.Mine(idx) || sh.Expired() {
			continue
		}
		cfg := []refmodel.ConfigEntry{
			{Key: "refgroup." + n + ".include", Value: "refs/heads"},
			{Key: "refgroup." + n + ".name", Value: "N " + n},
			{Key: "refgroup.plain.include", Value: "refs/tags"},
			{Key: "refgroup.plain.name", Value: n},
		}
		one(c19Scenario("dir", "file", "main"), cfg, "")
	}
	if sh.I == 0 {
		sh.C.Sample(3, map[string]any{"special_bytes": fmt.Sprintf("%q", c19Special), "name_shapes": "X, Xa, aXb, aX; lengths 255, 256, 4096, 65494, 65495", "places": "directory name, file name, reference name, ROOT spelling, refgroup symbol, refgroup display name"})
	}
}

func clipText(s string) string {
	if len(s) > 3000 {
		return s[:1500] + "\n...\n" + s[len(s)-1000:]
	}
	return s
}

func plainGrouper() sizes.RefGrouper {
	return inproc.SimpleGrouper{Walk: func(string) bool { return true }}
}

func init() {
	Registry["C19"] = &Check{Level: "exploration", Worker: c19Worker, QuickBudget: 70 * time.Second, ThoroughBudget: 10 * time.Minute,
		Rule:        "a special-byte alphabet (space, double and single quote, backslash, TAB, LF, CR, 0x01, DEL, invalid UTF-8, multi-byte UTF-8, ':', leading '-', '[1]', printf verbs, braces, U+2028, < > &, literal backslash-u0026 / backslash-u003c / backslash-n / backslash-quote text) in four positions (alone, start, middle, end) and long names (255, 256, 4096, 65494, 65495; 70000 in thorough) placed in: directory names, file names (all single placements and a product at reduced alphabet), reference names (only those git check-ref-format accepts; the harness rule is validated against real git on the whole alphabet in every run), ROOT spellings (also as the only root with no reference walked: full and abbreviated object ids, HEAD, @, ~ ^{} ^0 forms), refgroup symbols and display names; scanned in-process in the three name styles. JSON v1 and v2 must pass an independent strict RFC 8259 validator and have the plain-name key set (per-refgroup members excepted); the table must equal row by row (layout ignored) the text constructed from the scan's own citations (numbered 1..k by first citation, equal texts sharing a number, every footnote cited); descriptions are judged as in C08; for every third tree-entry placement the real binary (model git on PATH) must print the same JSON v1, JSON v2 (token for token, member order included) and table (row for row) as the in-process rendering of the same scan. non-trivial = every placement",
		Assumptions: []string{"reference names are limited to what git itself can hold", "footnote texts are taken from the scan result (Path.String()) and the table is compared with the constructive expected text"}}
}
