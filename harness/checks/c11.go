package checks

import (
	"encoding/json"
	"fmt"
	"math"
	"sort"
	"strings"
	"time"

	"github.com/github/git-sizer/counts"
	"github.com/github/git-sizer/git"
	"github.com/github/git-sizer/sizes"

	"verif/explore"
)

// metricSpec describes one row of the report, written from the README's table
// and the JSON key lists; reference values are NOT listed here, they are read
// from JSON v2 (referenceValue).
type metricSpec struct {
	key     string // JSON v1 key
	symbol  string // JSON v2 key
	section string // top-level section
	sub     string // subsection ("" = directly under the section)
	label   string
	binary  bool
	unit    string
	is64    bool
	pathKey string // JSON v1 key of the cited object ("" = none)
}

var c11Metrics = []metricSpec{
	{"unique_commit_count", "uniqueCommitCount", "Overall repository size", "Commits", "Count", false, "", false, ""},
	{"unique_commit_size", "uniqueCommitSize", "Overall repository size", "Commits", "Total size", true, "B", true, ""},
	{"unique_tree_count", "uniqueTreeCount", "Overall repository size", "Trees", "Count", false, "", false, ""},
	{"unique_tree_size", "uniqueTreeSize", "Overall repository size", "Trees", "Total size", true, "B", true, ""},
	{"unique_tree_entries", "uniqueTreeEntries", "Overall repository size", "Trees", "Total tree entries", false, "", true, ""},
	{"unique_blob_count", "uniqueBlobCount", "Overall repository size", "Blobs", "Count", false, "", false, ""},
	{"unique_blob_size", "uniqueBlobSize", "Overall repository size", "Blobs", "Total size", true, "B", true, ""},
	{"unique_tag_count", "uniqueTagCount", "Overall repository size", "Annotated tags", "Count", false, "", false, ""},
	{"reference_count", "referenceCount", "Overall repository size", "References", "Count", false, "", false, ""},
	{"max_commit_size", "maxCommitSize", "Biggest objects", "Commits", "Maximum size", true, "B", false, "max_commit"},
	{"max_parent_count", "maxCommitParentCount", "Biggest objects", "Commits", "Maximum parents", false, "", false, "max_parent_count_commit"},
	{"max_tree_entries", "maxTreeEntries", "Biggest objects", "Trees", "Maximum entries", false, "", false, "max_tree_entries_tree"},
	{"max_blob_size", "maxBlobSize", "Biggest objects", "Blobs", "Maximum size", true, "B", false, "max_blob_size_blob"},
	{"max_history_depth", "maxHistoryDepth", "History structure", "", "Maximum history depth", false, "", false, ""},
	{"max_tag_depth", "maxTagDepth", "History structure", "", "Maximum tag depth", false, "", false, "max_tag_depth_tag"},
	{"max_expanded_tree_count", "maxCheckoutTreeCount", "Biggest checkouts", "", "Number of directories", false, "", false, "max_expanded_tree_count_tree"},
	{"max_path_depth", "maxCheckoutPathDepth", "Biggest checkouts", "", "Maximum path depth", false, "", false, "max_path_depth_tree"},
	{"max_path_length", "maxCheckoutPathLength", "Biggest checkouts", "", "Maximum path length", true, "B", false, "max_path_length_tree"},
	{"max_expanded_blob_count", "maxCheckoutBlobCount", "Biggest checkouts", "", "Number of files", false, "", false, "max_expanded_blob_count_tree"},
	{"max_expanded_blob_size", "maxCheckoutBlobSize", "Biggest checkouts", "", "Total size of files", true, "B", true, "max_expanded_blob_size_tree"},
	{"max_expanded_link_count", "maxCheckoutLinkCount", "Biggest checkouts", "", "Number of symlinks", false, "", false, "max_expanded_link_count_tree"},
	{"max_expanded_submodule_count", "maxCheckoutSubmoduleCount", "Biggest checkouts", "", "Number of submodules", false, "", false, "max_expanded_submodule_count_tree"},
}

// setMetric stores value v into the HistorySize field of metric i, and a cited
// object for the metrics that carry one.
func setMetric(hs *sizes.HistorySize, key string, v uint64, cite git.OID) {
	c32 := counts.Count32(v)
	c64 := counts.Count64(v)
	var p *sizes.Path
	if cite != git.NullOID {
		p = &sizes.Path{OID: cite}
	}
	switch key {
	case "unique_commit_count":
		hs.UniqueCommitCount = c32
	case "unique_commit_size":
		hs.UniqueCommitSize = c64
	case "unique_tree_count":
		hs.UniqueTreeCount = c32
	case "unique_tree_size":
		hs.UniqueTreeSize = c64
	case "unique_tree_entries":
		hs.UniqueTreeEntries = c64
	case "unique_blob_count":
		hs.UniqueBlobCount = c32
	case "unique_blob_size":
		hs.UniqueBlobSize = c64
	case "unique_tag_count":
		hs.UniqueTagCount = c32
	case "reference_count":
		hs.ReferenceCount = c32
	case "max_commit_size":
		hs.MaxCommitSize, hs.MaxCommitSizeCommit = c32, p
	case "max_parent_count":
		hs.MaxParentCount, hs.MaxParentCountCommit = c32, p
	case "max_tree_entries":
		hs.MaxTreeEntries, hs.MaxTreeEntriesTree = c32, p
	case "max_blob_size":
		hs.MaxBlobSize, hs.MaxBlobSizeBlob = c32, p
	case "max_history_depth":
		hs.MaxHistoryDepth = c32
	case "max_tag_depth":
		hs.MaxTagDepth, hs.MaxTagDepthTag = c32, p
	case "max_expanded_tree_count":
		hs.MaxExpandedTreeCount, hs.MaxExpandedTreeCountTree = c32, p
	case "max_path_depth":
		hs.MaxPathDepth, hs.MaxPathDepthTree = c32, p
	case "max_path_length":
		hs.MaxPathLength, hs.MaxPathLengthTree = c32, p
	case "max_expanded_blob_count":
		hs.MaxExpandedBlobCount, hs.MaxExpandedBlobCountTree = c32, p
	case "max_expanded_blob_size":
		hs.MaxExpandedBlobSize, hs.MaxExpandedBlobSizeTree = c64, p
	case "max_expanded_link_count":
		hs.MaxExpandedLinkCount, hs.MaxExpandedLinkCountTree = c32, p
	case "max_expanded_submodule_count":
		hs.MaxExpandedSubmoduleCount, hs.MaxExpandedSubmoduleCountTree = c32, p
	default:
		panic("unknown metric " + key)
	}
}

type v2Item struct {
	Description       string  `json:"description"`
	Value             uint64  `json:"value"`
	Unit              string  `json:"unit"`
	Prefixes          string  `json:"prefixes"`
	ReferenceValue    float64 `json:"referenceValue"`
	LevelOfConcern    float64 `json:"levelOfConcern"`
	ObjectName        string  `json:"objectName"`
	ObjectDescription string  `json:"objectDescription"`
}

// expectedTable builds the table text from the JSON values (v1 numbers, v2
// reference values) by the rules of the property statement.
func expectedTable(nums map[string]uint64, items map[string]v2Item, cites map[string]string, groups []groupRow, threshold float64) string {
	type row struct {
		depth                        int
		name, cite, val, unit, level string
	}
	var foot []string
	footIdx := map[string]int{}
	citation := func(text string) string {
		if text == "" {
			return ""
		}
		i, ok := footIdx[text]
		if !ok {
			i = len(foot) + 1
			footIdx[text] = i
			foot = append(foot, text)
		}
		return fmt.Sprintf("[%d]", i)
	}
	render := func(m metricSpec, depth int, name string, value uint64, ref float64, cite string) (row, bool) {
		capv := uint64(math.MaxUint32)
		if m.is64 {
			capv = math.MaxUint64
		}
		sat := value == capv
		ratio := float64(value) / ref
		if !sat && ratio < threshold {
			return row{}, false
		}
		level := ""
		switch {
		case sat || ratio > 30:
			level = strings.Repeat("!", 30)
		default:
			level = strings.Repeat("*", int(math.Floor(ratio)))
		}
		h := counts.Metric
		if m.binary {
			h = counts.Binary
		}
		num, unit := "∞", m.unit
		if !sat {
			num, unit = h.FormatNumber(value, m.unit) // C12 owns the numeral's correctness
		}
		return row{depth, name, citation(cite), num, unit, level}, true
	}
	var out strings.Builder
	out.WriteString("| Name                         | Value     | Level of concern               |\n")
	out.WriteString("| ---------------------------- | --------- | ------------------------------ |\n")
	emit := func(r row) {
		prefix := ""
		if r.depth > 0 {
			prefix = strings.Repeat("  ", r.depth-1) + "* "
		}
		l := len(prefix) + len(r.name) + len(r.cite)
		spacer := ""
		if l < 28 {
			spacer = strings.Repeat(" ", 28-l)
		}
		fmt.Fprintf(&out, "| %s%s%s%s | %5s %-3s | %-30s |\n", prefix, r.name, spacer, r.cite, r.val, r.unit, r.level)
	}
	anySection := false
	var secOrder []string
	seen := map[string]bool{}
	for _, m := range c11Metrics {
		if !seen[m.section] {
			seen[m.section] = true
			secOrder = append(secOrder, m.section)
		}
	}
	for _, sec := range secOrder {
		// collect the rows of this section in order, grouped by subsection
		var rows []row
		var subOrder []string
		subRows := map[string][]row{}
		for _, m := range c11Metrics {
			if m.section != sec {
				continue
			}
			it := items[m.symbol]
			depth := 1
			if m.sub != "" {
				depth = 2
			}
			r, ok := render(m, depth, m.label, nums[m.key], it.ReferenceValue, cites[m.key])
			if _, known := subRows[m.sub]; !known {
				subRows[m.sub] = nil
				subOrder = append(subOrder, m.sub)
			}
			if ok {
				subRows[m.sub] = append(subRows[m.sub], r)
			}
			if m.key == "reference_count" {
				for _, g := range groups {
					gm := metricSpec{is64: false}
					gr, ok := render(gm, 3+g.indent, g.name, g.value, 25000, "")
					if ok {
						subRows[m.sub] = append(subRows[m.sub], gr)
					}
				}
			}
		}
		for _, sub := range subOrder {
			if len(subRows[sub]) == 0 {
				continue
			}
			if sub != "" {
				rows = append(rows, row{depth: 1, name: sub})
			}
			rows = append(rows, subRows[sub]...)
		}
		if len(rows) == 0 {
			continue
		}
		if anySection {
			out.WriteString("|                              |           |                                |\n")
		}
		anySection = true
		emit(row{depth: 0, name: sec})
		for _, r := range rows {
			emit(r)
		}
	}
	if !anySection {
		return "No problems above the current threshold were found\n"
	}
	if len(foot) > 0 {
		out.WriteString("\n")
		for i, f := range foot {
			fmt.Fprintf(&out, "%-4s %s\n", fmt.Sprintf("[%d]", i+1), f)
		}
	}
	return out.String()
}

// normTable reduces a table to what the property speaks about: per row the
// name (with its citation), the value with its unit and the concern marker,
// section headers, blank separator rows and footnotes. Column widths, padding
// and indentation are layout, which no property fixes, and are ignored.
func normTable(t string) string {
	var out []string
	for _, l := range strings.Split(t, "\n") {
		if strings.HasPrefix(l, "|") {
			cells := strings.Split(strings.Trim(l, "|"), "|")
			for i := range cells {
				cells[i] = strings.Join(strings.Fields(cells[i]), " ")
			}
			if len(cells) > 0 && strings.Trim(cells[0], "-") == "" && cells[0] != "" {
				continue // the |---|---| separator
			}
			out = append(out, strings.Join(cells, " | "))
			continue
		}
		if strings.HasPrefix(l, "[") {
			if i := strings.IndexByte(l, ']'); i > 0 {
				out = append(out, l[:i+1]+" "+strings.TrimLeft(l[i+1:], " "))
				continue
			}
		}
		out = append(out, strings.TrimRight(l, " "))
	}
	return strings.Join(out, "\n")
}

// dropUnknownRows removes table rows of metrics this harness does not know
// (a metric added to all three formats later is not a violation of anything;
// its row simply cannot be checked). It only applies when JSON v2 carries items
// beyond the known ones.
func dropUnknownRows(tab string, items map[string]v2Item, groups []groupRow) string {
	known := map[string]bool{}
	for _, m := range c11Metrics {
		known[m.symbol] = true
	}
	extra := false
	for k := range items {
		if !known[k] && !strings.HasPrefix(k, "refgroup.") {
			extra = true
		}
	}
	if !extra {
		return tab
	}
	names := map[string]bool{}
	for _, m := range c11Metrics {
		names[m.label], names[m.section], names[m.sub] = true, true, true
	}
	for _, g := range groups {
		names[g.name] = true
	}
	var out []string
	for _, l := range strings.Split(tab, "\n") {
		if strings.HasPrefix(l, "| ") {
			cell := strings.TrimSpace(strings.SplitN(strings.Trim(l, "|"), "|", 2)[0])
			cell = strings.TrimPrefix(cell, "* ")
			if i := strings.LastIndex(cell, "["); i > 0 && strings.HasSuffix(cell, "]") {
				cell = strings.TrimSpace(cell[:i])
			}
			if cell != "" && !names[cell] && cell != "Name" && strings.Trim(cell, "-") != "" {
				continue
			}
		}
		out = append(out, l)
	}
	return strings.Join(out, "\n")
}

type groupRow struct {
	symbol string
	name   string
	indent int
	value  uint64
}

// c11Render renders hs in the three formats and checks their agreement.
func c11Render(sh *explore.Shard, hs *sizes.HistorySize, refGroups []sizes.RefGroup, thresholds []float64, desc string) {
	mk := func(class, msg string) {
		sh.C.Violate(explore.Violation{Property: "C11", Class: class, Msg: msg + " [" + desc + "]", Case: caseJSON(sh.Index(), map[string]any{"desc": desc})})
	}
	defer func() {
		if r := recover(); r != nil {
			mk("panic", fmt.Sprintf("rendering panicked: %v", r))
		}
	}()
	j1, err := json.MarshalIndent(hs, "", "    ")
	if err != nil {
		mk("json", "JSON v1: "+err.Error())
		return
	}
	nums, strs, err := parseV1(j1)
	if err != nil {
		mk("json", "JSON v1 invalid: "+err.Error())
		return
	}
	var groups []groupRow
	for _, g := range refGroups {
		if g.Symbol == "" {
			continue
		}
		if c, ok := hs.ReferenceGroups[g.Symbol]; ok {
			groups = append(groups, groupRow{string(g.Symbol), g.Name, strings.Count(string(g.Symbol), "."), uint64(*c)})
		}
	}
	var prevRows map[string]bool
	var prevT float64
	for ti, th := range thresholds {
		for _, style := range []sizes.NameStyle{sizes.NameStyleNone, sizes.NameStyleHash, sizes.NameStyleFull} {
			sh.C.Evals++
			j2, err := hs.JSON(refGroups, sizes.Threshold(th), style)
			if err != nil {
				mk("json", "JSON v2: "+err.Error())
				return
			}
			var items map[string]v2Item
			if err := json.Unmarshal(j2, &items); err != nil {
				mk("json", "JSON v2 invalid: "+err.Error())
				return
			}
			cites := map[string]string{}
			for _, m := range c11Metrics {
				it, ok := items[m.symbol]
				if !ok {
					mk("agreement", "JSON v2 lacks "+m.symbol)
					continue
				}
				if it.Value != nums[m.key] {
					mk("agreement", fmt.Sprintf("%s: JSON v2 value %d, JSON v1 %d", m.symbol, it.Value, nums[m.key]))
				}
				want := float64(it.Value) / it.ReferenceValue
				if it.LevelOfConcern != want && math.Abs(it.LevelOfConcern-want) > math.Abs(want)*1e-15 {
					mk("agreement", fmt.Sprintf("%s: levelOfConcern %v, value/referenceValue = %v", m.symbol, it.LevelOfConcern, want))
				}
				wantPfx := "metric"
				if m.binary {
					wantPfx = "binary"
				}
				if it.Prefixes != wantPfx || it.Unit != m.unit {
					mk("agreement", fmt.Sprintf("%s: prefixes/unit %q/%q, expected %q/%q", m.symbol, it.Prefixes, it.Unit, wantPfx, m.unit))
				}
				if m.pathKey != "" && style != sizes.NameStyleNone {
					if s, ok := strs[m.pathKey]; ok {
						oid := s
						if i := strings.IndexByte(s, ' '); i > 0 {
							oid = s[:i]
						}
						if style == sizes.NameStyleFull {
							cites[m.key] = s
						} else {
							cites[m.key] = oid
						}
						if it.ObjectName != oid {
							mk("agreement", fmt.Sprintf("%s: JSON v2 objectName %q, JSON v1 cites %q", m.symbol, it.ObjectName, oid))
						}
					}
				}
			}
			for _, g := range groups {
				it, ok := items["refgroup."+g.symbol]
				if !ok || it.Value != g.value {
					mk("agreement", fmt.Sprintf("refgroup.%s: JSON v2 %v (present %v), JSON v1 %d", g.symbol, it.Value, ok, g.value))
				}
			}
			tab := hs.TableString(refGroups, sizes.Threshold(th), style)
			want := expectedTable(nums, items, cites, groups, th)
			if normTable(dropUnknownRows(tab, items, groups)) != normTable(want) {
				mk("table", fmt.Sprintf("threshold %v style %v: table differs from the one the JSON values imply\n--- actual\n%s--- expected\n%s", th, style, tab, want))
			}
			if style == sizes.NameStyleNone {
				// monotonic filtering: raising the threshold only removes rows
				rows := map[string]bool{}
				for _, l := range strings.Split(tab, "\n") {
					if strings.HasPrefix(l, "| ") && !strings.HasPrefix(l, "| Name") && !strings.HasPrefix(l, "| ---") {
						f := strings.SplitN(l, "|", 3)
						rows[strings.TrimRight(f[1], " ")] = true
					}
				}
				if ti > 0 && th >= prevT {
					for r := range rows {
						if !prevRows[r] && strings.TrimSpace(r) != "" {
							mk("monotone", fmt.Sprintf("row %q shown at threshold %v but not at %v", r, th, prevT))
						}
					}
				}
				prevRows, prevT = rows, th
				sh.C.Outcome(fmt.Sprintf("rows=%d", len(rows)))
			}
		}
	}
}

var c11Thresholds = []float64{-1, 0, 0.5, 1, 1.5, 29.99, 30, 30.01, 31, 35, 1e9, math.Inf(1)}

func c11Values(ref float64, is64 bool) []uint64 {
	capv := uint64(math.MaxUint32)
	if is64 {
		capv = math.MaxUint64
	}
	set := map[uint64]bool{0: true, 1: true, capv: true, capv - 1: true}
	for k := 0; k <= 31; k++ {
		x := float64(k) * ref
		for _, d := range []float64{-1, 0, 1} {
			v := math.Floor(x) + d
			if v >= 0 && v < float64(capv) {
				set[uint64(v)] = true
			}
		}
		// fractional levels between the integers
		v := (float64(k) + 0.7) * ref
		if v < float64(capv) {
			set[uint64(v)] = true
		}
	}
	for _, k := range []float64{45, 1000} {
		if v := k * ref; v < float64(capv) {
			set[uint64(v)] = true
		}
	}
	var out []uint64
	for v := range set {
		out = append(out, v)
	}
	sort.Slice(out, func(i, j int) bool { return out[i] < out[j] })
	return out
}

func c11Worker(sh *explore.Shard) {
	// reference values from JSON v2 of the zero measurement
	zero := sizes.HistorySize{ReferenceGroups: map[sizes.RefGroupSymbol]*counts.Count32{}}
	j2, err := zero.JSON(nil, 1, sizes.NameStyleNone)
	if err != nil {
		panic(err)
	}
	var items map[string]v2Item
	json.Unmarshal(j2, &items)
	oid1, _ := git.NewOID("1111111111111111111111111111111111111111")
	oid2, _ := git.NewOID("2222222222222222222222222222222222222222")
	rgs := []sizes.RefGroup{{Symbol: "", Name: "Refs to walk"}, {Symbol: "branches", Name: "Branches"}, {Symbol: "tags", Name: "Tags"}, {Symbol: "tags.rel", Name: "Releases"}, {Symbol: "ignored", Name: "Ignored"}}
	var idx int64
	// (1) one metric at a time over its boundary values, the others at 0
	for mi, m := range c11Metrics {
		ref := items[m.symbol].ReferenceValue
		for _, v := range c11Values(ref, m.is64) {
			idx++
			if !sh.Mine(idx) {
				continue
			}
			if sh.Expired() {
				return
			}
			hs := sizes.HistorySize{ReferenceGroups: map[sizes.RefGroupSymbol]*counts.Count32{}}
			cite := git.NullOID
			if m.pathKey != "" {
				cite = oid1
			}
			setMetric(&hs, m.key, v, cite)
			c11Render(sh, &hs, nil, c11Thresholds, fmt.Sprintf("%s=%d", m.key, v))
			sh.C.Nontrivial++
			if mi == 9 && v == uint64(ref) {
				sh.C.Sample(2, map[string]any{"metric": m.key, "value": v, "reference": ref, "thresholds": fmt.Sprint(c11Thresholds)})
			}
		}
	}
	// (2) every pair of metrics both visible (shared and distinct cited objects)
	for _, a := range c11Metrics {
		for _, b := range c11Metrics {
			if a.key >= b.key {
				continue
			}
			idx++
			if !sh.Mine(idx) {
				continue
			}
			hs := sizes.HistorySize{ReferenceGroups: map[sizes.RefGroupSymbol]*counts.Count32{}}
			ca, cb := git.NullOID, git.NullOID
			if a.pathKey != "" {
				ca = oid1
			}
			if b.pathKey != "" {
				cb = oid1
				if idx%2 == 0 {
					cb = oid2
				}
			}
			setMetric(&hs, a.key, uint64(2*items[a.symbol].ReferenceValue), ca)
			setMetric(&hs, b.key, uint64(31*items[b.symbol].ReferenceValue)+1, cb)
			c11Render(sh, &hs, nil, []float64{0, 1, 2, 30, 32}, fmt.Sprintf("pair %s,%s", a.key, b.key))
			sh.C.Nontrivial++
		}
	}
	// (3) every subset of visible rows (section headers, blank rows, "no problems")
	nm := len(c11Metrics)
	var masks []uint32
	if sh.Tier == "thorough" {
		for m := uint32(0); m < 1<<uint(nm); m++ {
			masks = append(masks, m)
		}
	} else {
		// per section: every subset of its rows, with the other sections all visible / all hidden
		secOf := map[string]uint32{}
		for i, m := range c11Metrics {
			secOf[m.section] |= 1 << uint(i)
		}
		all := uint32(1)<<uint(nm) - 1
		var secs []string
		for s := range secOf {
			secs = append(secs, s)
		}
		sort.Strings(secs)
		for _, sname := range secs {
			bits := secOf[sname]
			var pos []uint
			for i := 0; i < nm; i++ {
				if bits&(1<<uint(i)) != 0 {
					pos = append(pos, uint(i))
				}
			}
			for sub := 0; sub < 1<<uint(len(pos)); sub++ {
				var m uint32
				for j, p := range pos {
					if sub&(1<<uint(j)) != 0 {
						m |= 1 << p
					}
				}
				masks = append(masks, m, m|(all&^bits))
			}
		}
	}
	for _, mask := range masks {
		idx++
		if !sh.Mine(idx) {
			continue
		}
		if sh.Expired() {
			return
		}
		hs := sizes.HistorySize{ReferenceGroups: map[sizes.RefGroupSymbol]*counts.Count32{}}
		for i, m := range c11Metrics {
			if mask&(1<<uint(i)) != 0 {
				cite := git.NullOID
				if m.pathKey != "" {
					cite = oid1
					if i%3 == 0 {
						cite = oid2
					}
				}
				setMetric(&hs, m.key, uint64(3*items[m.symbol].ReferenceValue), cite)
			}
		}
		var groups []sizes.RefGroup
		if mask&(1<<8) != 0 { // reference_count visible: add group tallies
			b, t, r := counts.NewCount32(50000), counts.NewCount32(3), counts.NewCount32(75000)
			hs.ReferenceGroups["branches"] = &b
			hs.ReferenceGroups["tags"] = &t
			hs.ReferenceGroups["tags.rel"] = &r
			groups = rgs
		}
		ths := []float64{1}
		if sh.Tier != "thorough" {
			ths = []float64{0, 1, 4}
		}
		c11Render(sh, &hs, groups, ths, fmt.Sprintf("rows mask=%b", mask))
		sh.C.Nontrivial++
	}
}

func init() {
	Registry["C11"] = &Check{Level: "exploration", Worker: c11Worker, QuickBudget: 60 * time.Second, ThoroughBudget: 10 * time.Minute,
		Rule:        "synthetic measurement vectors rendered in-process by the real TableString/JSON/json.Marshal: (1) each of the 22 metrics at {0,1,k*ref-1,k*ref,k*ref+1,(k+0.7)*ref for k=0..31, 45*ref, 1000*ref, cap-1, cap} x 12 thresholds (negative, 0, fractional, 29.99/30/30.01, 31, 35, 1e9, +Inf) x 3 name styles; (2) every pair of metrics both visible with shared/distinct cited objects; (3) every subset of visible rows per section with the other sections all visible/all hidden (quick) or all 2^22 subsets (thorough), with refgroup rows. The table must equal, row by row (name with citation, value with unit, concern marker, section headers, separator rows, footnotes; column widths and padding ignored), the text constructed from the JSON v1 numbers and JSON v2 reference values by the statement's rules; JSON v2 value/levelOfConcern/prefixes must agree with JSON v1; rows only disappear as the threshold rises",
		Assumptions: []string{"value/referenceValue is evaluated as IEEE double division, as JSON consumers would", "the numeral inside a cell is taken from FormatNumber (its correctness is C12's)"}}
}
