// Replacement for go-pipe's command*.go: instead of exec'ing a process the
// stage runs Handler in a goroutine between two pipes. Everything else in this
// package is copied verbatim from go-pipe v1.0.2.
package pipe

import (
	"context"
	"io"
	"os/exec"
)

// CommandHandler plays the process: it reads stdin, writes stdout, and returns
// the error that cmd.Wait() would have returned (nil, *exec.ExitError, ...).
type CommandHandler func(cmd *exec.Cmd, stdin io.Reader, stdout io.Writer) error

// Handler must be set by the harness before any pipeline is started.
var Handler CommandHandler

type commandStage struct {
	name  string
	cmd   *exec.Cmd
	stdin io.ReadCloser
	done  chan struct{}
	err   error
}

func Command(command string, args ...string) Stage {
	if len(command) == 0 {
		panic("attempt to create command with empty command")
	}
	return CommandStage(command, exec.Command(command, args...))
}

func CommandStage(name string, cmd *exec.Cmd) Stage {
	return &commandStage{name: name, cmd: cmd, done: make(chan struct{})}
}

func (s *commandStage) Name() string { return s.name }

func (s *commandStage) Start(ctx context.Context, env Env, stdin io.ReadCloser) (io.ReadCloser, error) {
	r, w := io.Pipe()
	s.stdin = stdin
	go func() {
		var in io.Reader
		if stdin != nil {
			in = stdin
		}
		s.err = Handler(s.cmd, in, w)
		// process exit: both of its descriptors go away
		_ = w.Close()
		if stdin != nil {
			_ = stdin.Close()
		}
		close(s.done)
	}()
	go func() {
		select {
		case <-ctx.Done():
			// the real stage kills the process group; the model process
			// loses its pipes, which ends any blocking read or write.
			_ = w.CloseWithError(io.ErrClosedPipe)
			if stdin != nil {
				_ = stdin.Close()
			}
		case <-s.done:
		}
	}()
	return r, nil
}

func (s *commandStage) Wait() error {
	<-s.done
	return s.err
}
