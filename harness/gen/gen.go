// Package gen holds the bounded-exhaustive generators of model repositories
// (small-scope families) and of listing orders.
package gen

import (
	"fmt"
	"sort"

	"verif/modelgit"
	"verif/mrepo"
)

// Scenario is one model repository plus the root selection.
type Scenario struct {
	Repo *mrepo.Repo
	// WalkRefs: nil = every reference is walked; otherwise the set of walked
	// reference names.
	WalkRefs map[string]bool
	// Explicit ROOT arguments (name, id), walked in addition.
	Explicit [][2]string
	Desc     string
}

func (s *Scenario) Walks(ref string) bool {
	if s.WalkRefs == nil {
		return true
	}
	return s.WalkRefs[ref]
}

// Roots returns the ids that are walked, in git-sizer's root order
// (references sorted by name, then explicit roots).
func (s *Scenario) Roots() []mrepo.ID {
	var out []mrepo.ID
	for _, r := range s.Repo.Refs {
		if s.Walks(r.Name) {
			out = append(out, r.ID)
		}
	}
	for _, e := range s.Explicit {
		out = append(out, mrepo.ID(e[1]))
	}
	return out
}

const T0 = int64(1_000_000_000)

// Leaves is a small stock of leaf objects.
type Leaves struct {
	BlobA, BlobB, BlobC, LinkTarget mrepo.ID
	Gitlink                         mrepo.ID
	EmptyTree                       mrepo.ID
}

func AddLeaves(r *mrepo.Repo) Leaves {
	return Leaves{
		BlobA:      r.AddBlob([]byte("a")),                               // size 1
		BlobB:      r.AddBlob([]byte("bbbbbbb")),                         // size 7
		BlobC:      r.AddBlob(make([]byte, 300)),                         // size 300
		LinkTarget: r.AddBlob([]byte("target/of/link")),                  // a symlink's blob
		Gitlink:    mrepo.ID("1234567890123456789012345678901234567890"), // never an object here
	}
}

// CommitDAGs enumerates all DAGs on n commits in topological labelling: commit
// i takes any subset of {0..i-1} as parents (mask bits). f receives the
// repository, the commit ids by label and the parent masks.
func CommitDAGs(n int, f func(r *mrepo.Repo, commits []mrepo.ID, masks []uint) bool) {
	masks := make([]uint, n)
	var rec func(i int) bool
	rec = func(i int) bool {
		if i == n {
			r := mrepo.New()
			lv := AddLeaves(r)
			tree := r.AddTree([]mrepo.Entry{{Mode: 0o100644, Name: "a", Child: lv.BlobA}})
			ids := make([]mrepo.ID, n)
			for c := 0; c < n; c++ {
				var ps []mrepo.ID
				for p := 0; p < c; p++ {
					if masks[c]&(1<<uint(p)) != 0 {
						ps = append(ps, ids[p])
					}
				}
				// newest parent first, as a merge of branches would list them
				for a, b := 0, len(ps)-1; a < b; a, b = a+1, b-1 {
					ps[a], ps[b] = ps[b], ps[a]
				}
				ids[c] = r.AddCommit(mrepo.CommitSpec{Tree: tree, Parents: ps, Time: T0 + int64(c)*100, Message: fmt.Sprintf("c%d\n", c)})
			}
			return f(r, ids, append([]uint(nil), masks...))
		}
		for m := uint(0); m < 1<<uint(i); m++ {
			masks[i] = m
			if !rec(i + 1) {
				return false
			}
		}
		return true
	}
	rec(0)
}

// TagForests enumerates all target assignments of m tags: tag i points at the
// commit, the tree, the blob or an earlier tag. targets[i] in {-3,-2,-1} for
// commit/tree/blob or j<i for a tag.
func TagForests(m int, f func(r *mrepo.Repo, tags []mrepo.ID, targets []int) bool) {
	targets := make([]int, m)
	var rec func(i int) bool
	rec = func(i int) bool {
		if i == m {
			r := mrepo.New()
			lv := AddLeaves(r)
			tree := r.AddTree([]mrepo.Entry{{Mode: 0o100644, Name: "a", Child: lv.BlobA}})
			commit := r.AddCommit(mrepo.CommitSpec{Tree: tree, Time: T0, Message: "c\n"})
			ids := make([]mrepo.ID, m)
			for t := 0; t < m; t++ {
				var tgt mrepo.ID
				switch targets[t] {
				case -3:
					tgt = commit
				case -2:
					tgt = tree
				case -1:
					tgt = lv.BlobB
				default:
					tgt = ids[targets[t]]
				}
				ids[t] = r.AddTag(mrepo.TagSpec{Target: tgt, Name: fmt.Sprintf("t%d", t), Time: T0 + int64(t), Message: fmt.Sprintf("tag %d\n", t)})
			}
			return f(r, ids, append([]int(nil), targets...))
		}
		for v := -3; v < i; v++ {
			targets[i] = v
			if !rec(i + 1) {
				return false
			}
		}
		return true
	}
	rec(0)
}

// TreeAlphabet configures TreeDAGs.
type TreeAlphabet struct {
	Names []string
	// Leaf kinds: 'a' file blobA 100644, 'b' exec blobB 100755, 'c' file blobC,
	// 'l' symlink, 's' gitlink, 'e' empty subtree, 'g' file blobA with the legacy
	// group-writable mode 100664 (written by early gits and importers; fsck accepts it)
	Leaves     string
	MaxEntries int
}

// TreeDAGs enumerates all tree DAGs with k generated trees: tree i has up to
// MaxEntries entries with distinct names drawn in order from Names, each entry
// being a leaf kind or an earlier tree. f receives the trees bottom-up (the last
// is the top).
func TreeDAGs(k int, al TreeAlphabet, f func(r *mrepo.Repo, lv Leaves, trees []mrepo.ID) bool) {
	type choice []int // per name: -1 absent, 0..len(Leaves)-1 leaf, len(Leaves)+j tree j
	specs := make([][]int, k)
	var rec func(i int) bool
	build := func() (*mrepo.Repo, Leaves, []mrepo.ID) {
		r := mrepo.New()
		lv := AddLeaves(r)
		ids := make([]mrepo.ID, k)
		for t := 0; t < k; t++ {
			var es []mrepo.Entry
			for ni, c := range specs[t] {
				if c < 0 {
					continue
				}
				name := al.Names[ni]
				if c < len(al.Leaves) {
					switch al.Leaves[c] {
					case 'a':
						es = append(es, mrepo.Entry{Mode: 0o100644, Name: name, Child: lv.BlobA})
					case 'b':
						es = append(es, mrepo.Entry{Mode: 0o100755, Name: name, Child: lv.BlobB})
					case 'c':
						es = append(es, mrepo.Entry{Mode: 0o100644, Name: name, Child: lv.BlobC})
					case 'l':
						es = append(es, mrepo.Entry{Mode: 0o120000, Name: name, Child: lv.LinkTarget})
					case 's':
						es = append(es, mrepo.Entry{Mode: 0o160000, Name: name, Child: lv.Gitlink})
					case 'e':
						es = append(es, mrepo.Entry{Mode: 0o40000, Name: name, Child: r.AddTree(nil)})
					case 'g':
						es = append(es, mrepo.Entry{Mode: 0o100664, Name: name, Child: lv.BlobA})
					default:
						panic("gen: unknown leaf kind " + string(al.Leaves[c]))
					}
				} else {
					es = append(es, mrepo.Entry{Mode: 0o40000, Name: name, Child: ids[c-len(al.Leaves)]})
				}
			}
			ids[t] = r.AddTree(es)
		}
		return r, lv, ids
	}
	rec = func(i int) bool {
		if i == k {
			r, lv, ids := build()
			return f(r, lv, ids)
		}
		nchoices := len(al.Leaves) + i
		spec := make([]int, len(al.Names))
		var recName func(ni, used int) bool
		recName = func(ni, used int) bool {
			if ni == len(al.Names) {
				specs[i] = append([]int(nil), spec...)
				return rec(i + 1)
			}
			spec[ni] = -1
			if !recName(ni+1, used) {
				return false
			}
			if used < al.MaxEntries {
				for c := 0; c < nchoices; c++ {
					spec[ni] = c
					if !recName(ni+1, used+1) {
						return false
					}
				}
			}
			return true
		}
		return recName(0, 0)
	}
	rec(0)
}

// Subsets calls f with every non-empty subset mask of n items.
func Subsets(n int, f func(mask uint) bool) {
	for m := uint(1); m < 1<<uint(n); m++ {
		if !f(m) {
			return
		}
	}
}

// OrderSpace describes which parts of a listing are permuted.
type OrderSpace struct {
	Commits bool // all linear extensions (children before parents)
	// CommitsUnordered: git-sizer did not ask rev-list for a topological
	// order, so every permutation of the commits is a possible listing
	CommitsUnordered bool
	Trees            bool // all permutations
	Tags             bool // all permutations
	Blobs            bool // all permutations
	// Interleave: besides the kind-grouped listing also produce listings where
	// kinds are interleaved (rotations of the non-commit part)
	Max int // cap on the number of orders per scenario (0 = none)
}

// Orders enumerates listing orders for the scenario's default listing. The
// listing given to f is a fresh slice.
func Orders(r *mrepo.Repo, l *modelgit.Listing, sp OrderSpace, f func(order []mrepo.ID) bool) (n int, capped bool) {
	var commits, trees, tags, blobs []mrepo.ID
	for _, id := range l.IDs {
		switch r.Objects[id].Kind {
		case mrepo.Commit:
			commits = append(commits, id)
		case mrepo.Tree:
			trees = append(trees, id)
		case mrepo.Tag:
			tags = append(tags, id)
		default:
			blobs = append(blobs, id)
		}
	}
	commitOrders := [][]mrepo.ID{commits}
	if sp.Commits && len(commits) > 1 {
		if sp.CommitsUnordered {
			commitOrders = WalkOrders(r, commits)
		} else {
			commitOrders = LinearExtensions(r, commits)
		}
	}
	perms := func(on bool, xs []mrepo.ID) [][]mrepo.ID {
		if !on || len(xs) < 2 {
			return [][]mrepo.ID{xs}
		}
		return AllPerms(xs)
	}
	treeOrders := perms(sp.Trees, trees)
	tagOrders := perms(sp.Tags, tags)
	blobOrders := perms(sp.Blobs, blobs)
	for _, co := range commitOrders {
		for _, to := range treeOrders {
			for _, go_ := range tagOrders {
				for _, bo := range blobOrders {
					if sp.Max > 0 && n >= sp.Max {
						return n, true
					}
					order := make([]mrepo.ID, 0, len(l.IDs))
					order = append(order, co...)
					order = append(order, go_...)
					// trees and blobs: keep git's relative interleaving pattern of
					// kinds (tree then its blobs) irrelevant to git-sizer: trees first
					order = append(order, to...)
					order = append(order, bo...)
					n++
					if !f(order) {
						return n, false
					}
				}
			}
		}
	}
	return n, false
}

func AllPerms(xs []mrepo.ID) [][]mrepo.ID {
	var out [][]mrepo.ID
	idx := make([]int, len(xs))
	for i := range idx {
		idx[i] = i
	}
	var rec func(k int)
	cur := make([]mrepo.ID, 0, len(xs))
	used := make([]bool, len(xs))
	rec = func(k int) {
		if k == len(xs) {
			out = append(out, append([]mrepo.ID(nil), cur...))
			return
		}
		for i := range xs {
			if used[i] {
				continue
			}
			used[i] = true
			cur = append(cur, xs[i])
			rec(k + 1)
			cur = cur[:len(cur)-1]
			used[i] = false
		}
	}
	rec(0)
	return out
}

// LinearExtensions returns every order of commits in which no commit appears
// before all of its (listed) children have appeared, i.e. every order
// `rev-list --date-order` is allowed to produce for some timestamps.
func LinearExtensions(r *mrepo.Repo, commits []mrepo.ID) [][]mrepo.ID {
	in := map[mrepo.ID]bool{}
	for _, c := range commits {
		in[c] = true
	}
	children := map[mrepo.ID]int{} // number of listed children not yet emitted
	for _, c := range commits {
		seen := map[mrepo.ID]bool{}
		for _, p := range r.Objects[c].Parents {
			if in[p] && !seen[p] {
				seen[p] = true
				children[p]++
			}
		}
	}
	sorted := append([]mrepo.ID(nil), commits...)
	sort.Slice(sorted, func(i, j int) bool { return sorted[i] < sorted[j] })
	var out [][]mrepo.ID
	cur := make([]mrepo.ID, 0, len(commits))
	done := map[mrepo.ID]bool{}
	var rec func()
	rec = func() {
		if len(cur) == len(commits) {
			out = append(out, append([]mrepo.ID(nil), cur...))
			return
		}
		for _, c := range sorted {
			if done[c] || children[c] != 0 {
				continue
			}
			done[c] = true
			cur = append(cur, c)
			seen := map[mrepo.ID]bool{}
			for _, p := range r.Objects[c].Parents {
				if in[p] && !seen[p] {
					seen[p] = true
					children[p]--
				}
			}
			rec()
			for p := range seen {
				children[p]++
			}
			cur = cur[:len(cur)-1]
			done[c] = false
		}
	}
	rec()
	return out
}

// WalkOrders returns every order a plain `rev-list` (no --date-order /
// --topo-order) can produce for some assignment of timestamps: the walk pops
// the newest queued commit and queues its parents, so every commit that has a
// listed child appears after at least one of its children; nothing else is
// guaranteed.
func WalkOrders(r *mrepo.Repo, commits []mrepo.ID) [][]mrepo.ID {
	in := map[mrepo.ID]bool{}
	for _, c := range commits {
		in[c] = true
	}
	hasChild := map[mrepo.ID]bool{}
	for _, c := range commits {
		for _, p := range r.Objects[c].Parents {
			if in[p] {
				hasChild[p] = true
			}
		}
	}
	sorted := append([]mrepo.ID(nil), commits...)
	sort.Slice(sorted, func(i, j int) bool { return sorted[i] < sorted[j] })
	var out [][]mrepo.ID
	cur := make([]mrepo.ID, 0, len(commits))
	done := map[mrepo.ID]bool{}
	avail := map[mrepo.ID]int{} // number of emitted children
	var rec func()
	rec = func() {
		if len(cur) == len(commits) {
			out = append(out, append([]mrepo.ID(nil), cur...))
			return
		}
		for _, c := range sorted {
			if done[c] || (hasChild[c] && avail[c] == 0) {
				continue
			}
			done[c] = true
			cur = append(cur, c)
			for _, p := range r.Objects[c].Parents {
				if in[p] {
					avail[p]++
				}
			}
			rec()
			for _, p := range r.Objects[c].Parents {
				if in[p] {
					avail[p]--
				}
			}
			cur = cur[:len(cur)-1]
			done[c] = false
		}
	}
	rec()
	return out
}
