// Package modelgit is the model of the git commands git-sizer issues. The same
// code serves the in-process command stage (shimpipe) and the standalone
// fakegit executable. Every environment choice (listing order, chunking,
// faults) comes from a Plan owned by the explorer.
package modelgit

import (
	"bufio"
	"bytes"
	"fmt"
	"io"
	"sort"
	"strconv"
	"strings"

	"verif/mrepo"
)

// Kinds of invocation.
const (
	KRevParseGitDir  = "rev-parse-git-dir"
	KRevParseFacts   = "rev-parse-facts"
	KRevParseGitPath = "rev-parse-git-path"
	KConfigList      = "config-list"
	KConfigGet       = "config-get"
	KForEachRef      = "for-each-ref"
	KRevList         = "rev-list"
	KBatchCheck      = "cat-file-check"
	KBatch           = "cat-file-batch"
	KRevParseVerify  = "rev-parse-verify"
	KUnexpected      = "UNEXPECTED"
)

// Fault describes one injected failure of one invocation.
type Fault struct {
	Kind string `json:"kind"`
	Nth  int    `json:"nth"` // 0-based among invocations of Kind
	// StdoutBytes >= 0: die after exactly that many bytes of stdout reached the
	// consumer. -1: no output cut.
	StdoutBytes int `json:"stdout_bytes"`
	// StdinLines >= 0: die after having read that many lines of stdin. -1: off.
	StdinLines int `json:"stdin_lines"`
	// AtExit: produce the complete output, then exit with Exit.
	AtExit bool `json:"at_exit"`
	// Exit is the exit status (1, 128, ...) or, if negative, minus the signal
	// number that kills the process (-9 = SIGKILL).
	Exit int `json:"exit"`
}

// Plan is the set of environment answers for one run of git-sizer.
type Plan struct {
	// ListOrder, if non-nil, is the complete order of the rev-list listing
	// (must be a permutation of the reachable set). nil = imitation of git.
	ListOrder []mrepo.ID `json:"list_order,omitempty"`
	// RefOrder, if non-nil, permutes the for-each-ref listing.
	RefOrder []int `json:"ref_order,omitempty"`
	// Chunk: maximal size of one write to stdout (0 = unlimited).
	Chunk int `json:"chunk,omitempty"`
	// SplitAt: for invocation kind -> single split position of the output stream.
	SplitAt map[string]int `json:"split_at,omitempty"`
	// FlushEvery: cat-file --buffer flush policy: 0 = flush only at exit,
	// n>0 = flush after every n records.
	FlushEvery int     `json:"flush_every,omitempty"`
	Faults     []Fault `json:"faults,omitempty"`
	// Deleted objects answer as git does when the object file is gone.
	Deleted []mrepo.ID `json:"deleted,omitempty"`
	// GitDir reported by rev-parse --git-dir.
	GitDir string `json:"git_dir,omitempty"`
	// Shallow: rev-parse --git-path shallow answers with a path that exists.
	ShallowPath string `json:"shallow_path,omitempty"`
}

// Invocation is the log record of one command.
type Invocation struct {
	Kind   string   `json:"kind"`
	Nth    int      `json:"nth"`
	Args   []string `json:"args"`
	GitDir string   `json:"git_dir_env"`
	Graft  string   `json:"graft_env"`
	Stdin  string   `json:"stdin,omitempty"`
	OutLen int      `json:"out_len"`
	Exit   int      `json:"exit"`
	NoRepl bool     `json:"no_replace_objects"`
	Served []string `json:"served,omitempty"`
}

type die struct{ code int }

// Env is one model git bound to a repository and a plan.
type Env struct {
	Repo *mrepo.Repo
	Plan *Plan
	// Counter of invocations per kind (in-proc use; fakegit counts from its log).
	Count map[string]int
}

func NewEnv(r *mrepo.Repo, p *Plan) *Env {
	if p == nil {
		p = &Plan{}
	}
	return &Env{Repo: r, Plan: p, Count: map[string]int{}}
}

// Classify maps an argument vector of git (without argv[0]) to a kind and the
// significant arguments. It reads the command line the way git does: global
// options first (in any order and number), then the subcommand with its
// options; what is recognised is what the model can answer faithfully, not the
// literal spelling git-sizer happens to use today.
func Classify(args []string) (kind string, rest []string, noReplace bool) {
	a := args
	cdir := ""
	for len(a) > 0 && strings.HasPrefix(a[0], "-") {
		switch {
		case a[0] == "--no-replace-objects":
			noReplace = true
			a = a[1:]
		case a[0] == "-c" && len(a) > 1:
			// a configuration parameter: none of the modelled answers depends on one
			a = a[2:]
		case a[0] == "-C" && len(a) > 1:
			cdir = a[1]
			a = a[2:]
		case a[0] == "--git-dir" && len(a) > 1:
			a = a[2:] // see GlobalGitDir
		case strings.HasPrefix(a[0], "--git-dir="):
			a = a[1:]
		case a[0] == "--no-pager" || a[0] == "--literal-pathspecs" || a[0] == "--no-optional-locks":
			a = a[1:]
		default:
			return KUnexpected, args, noReplace
		}
	}
	if len(a) == 0 {
		return KUnexpected, args, noReplace
	}
	sub, o := a[0], a[1:]
	has := func(x string) bool {
		for _, y := range o {
			if y == x {
				return true
			}
		}
		return false
	}
	// without drops the given words from o
	without := func(xs ...string) []string {
		var out []string
	next:
		for _, y := range o {
			for _, x := range xs {
				if y == x {
					continue next
				}
			}
			out = append(out, y)
		}
		return out
	}
	switch sub {
	case "rev-parse":
		switch {
		case len(o) == 1 && o[0] == "--git-dir":
			return KRevParseGitDir, []string{cdir}, noReplace
		case len(o) == 2 && o[0] == "--git-path":
			return KRevParseGitPath, o[1:], noReplace
		case has("--verify"):
			r := without("--verify", "--end-of-options", "--quiet", "-q")
			if len(r) == 1 {
				return KRevParseVerify, r, noReplace
			}
		default:
			// repository facts, one answer line per option
			ok := len(o) > 0
			for _, x := range o {
				switch x {
				case "--git-dir", "--absolute-git-dir", "--is-shallow-repository", "--is-bare-repository", "--is-inside-git-dir", "--is-inside-work-tree":
				default:
					ok = false
				}
			}
			if ok {
				return KRevParseFacts, o, noReplace
			}
		}
	case "config":
		switch {
		case has("--list") && (has("-z") || has("--null")) && len(without("--list", "-z", "--null")) == 0:
			return KConfigList, nil, noReplace
		case has("--get"):
			r := without("--get")
			var typ []string
			var keys []string
			for _, x := range r {
				switch x {
				case "--int", "--type=int":
					typ = []string{"--int"}
				case "--bool", "--type=bool":
					typ = []string{"--bool"}
				default:
					if strings.HasPrefix(x, "-") {
						return KUnexpected, args, noReplace
					}
					keys = append(keys, x)
				}
			}
			if len(keys) == 1 {
				return KConfigGet, append(typ, keys...), noReplace
			}
		}
	case "for-each-ref":
		if len(o) == 1 && strings.HasPrefix(o[0], "--format=") {
			if _, ok := FormatRef(o[0][len("--format="):], "", "", 0, ""); ok {
				return KForEachRef, []string{o[0][len("--format="):]}, noReplace
			}
		}
	case "rev-list":
		if revListFlagsOK(o) {
			// rest = the ordering flags given: the set of listing orders the
			// explorer may answer with depends on them
			return KRevList, o, noReplace
		}
	case "cat-file":
		if len(without("--batch-check", "--buffer")) == 0 && has("--batch-check") {
			return KBatchCheck, nil, noReplace
		}
		if len(without("--batch", "--buffer")) == 0 && has("--batch") {
			return KBatch, nil, noReplace
		}
	}
	return KUnexpected, args, noReplace
}

// GlobalGitDir returns the repository named by a --git-dir global option ("" if
// there is none); like git, it takes precedence over GIT_DIR in the environment.
func GlobalGitDir(args []string) string {
	for i := 0; i < len(args) && strings.HasPrefix(args[i], "-"); i++ {
		switch {
		case args[i] == "--git-dir" && i+1 < len(args):
			return args[i+1]
		case strings.HasPrefix(args[i], "--git-dir="):
			return args[i][len("--git-dir="):]
		case (args[i] == "-c" || args[i] == "-C") && i+1 < len(args):
			i++
		}
	}
	return ""
}

// FormatRef expands a for-each-ref format made of literal text and the atoms
// %(objectname) %(objecttype) %(objectsize) %(refname); ok is false for any
// other atom.
func FormatRef(format string, id, kind string, size uint64, name string) (string, bool) {
	var b strings.Builder
	for len(format) > 0 {
		i := strings.Index(format, "%(")
		if i < 0 {
			b.WriteString(format)
			break
		}
		b.WriteString(format[:i])
		j := strings.IndexByte(format[i:], ')')
		if j < 0 {
			return "", false
		}
		switch format[i+2 : i+j] {
		case "objectname":
			b.WriteString(id)
		case "objecttype":
			b.WriteString(kind)
		case "objectsize":
			b.WriteString(strconv.FormatUint(size, 10))
		case "refname":
			b.WriteString(name)
		default:
			return "", false
		}
		format = format[i+j+1:]
	}
	return b.String(), true
}

// LooksReadOnly tells whether an argument vector the model does not implement
// names a git command that only reads (so that meeting it means "extend the
// model", not "the program under test writes").
func LooksReadOnly(args []string) bool {
	a := args
	for len(a) > 0 && strings.HasPrefix(a[0], "-") {
		if (a[0] == "-c" || a[0] == "-C" || a[0] == "--git-dir" || a[0] == "--work-tree") && len(a) > 1 {
			a = a[2:]
			continue
		}
		a = a[1:]
	}
	if len(a) == 0 {
		return true
	}
	switch a[0] {
	case "rev-parse", "rev-list", "cat-file", "for-each-ref", "show-ref", "ls-tree", "ls-files", "log", "show", "describe", "name-rev",
		"merge-base", "count-objects", "diff-tree", "verify-pack", "var", "version", "check-ref-format", "ls-remote", "fsck", "symbolic-ref", "status":
		if a[0] == "symbolic-ref" && len(a) > 2 && !strings.HasPrefix(a[len(a)-1], "-") && !strings.HasPrefix(a[len(a)-2], "-") {
			return false // symbolic-ref <name> <ref> writes
		}
		return true
	case "config":
		for _, x := range a[1:] {
			switch x {
			case "--add", "--unset", "--unset-all", "--replace-all", "--rename-section", "--remove-section", "--edit", "-e":
				return false
			}
		}
		n := 0
		for _, x := range a[1:] {
			if !strings.HasPrefix(x, "-") {
				n++
			}
		}
		return n <= 1 // `config key value` sets
	}
	return false
}

// revListFlagsOK accepts `rev-list --objects --stdin` with or without an
// ordering flag (without one, git promises no order among commits at all).
func revListFlagsOK(flags []string) bool {
	seen := map[string]bool{}
	for _, f := range flags {
		switch f {
		case "--objects", "--stdin", "--date-order", "--topo-order", "--author-date-order",
			"--use-bitmap-index", "--reverse",
			// the model repository has no promisor packs and no missing objects to tolerate
			"--exclude-promisor-objects":
			seen[f] = true
		default:
			return false
		}
	}
	return seen["--objects"] && seen["--stdin"]
}

// RevListOrdered tells whether the rev-list invocation asked for an order in
// which no parent precedes its children.
func RevListOrdered(args []string) bool {
	for _, f := range args {
		// with a reachability bitmap git answers from the bitmap and ignores the
		// ordering flags (the model repository may always have one); --reverse
		// lists parents first
		if f == "--use-bitmap-index" || f == "--reverse" {
			return false
		}
	}
	for _, f := range args {
		if f == "--date-order" || f == "--topo-order" || f == "--author-date-order" {
			return true
		}
	}
	return false
}

// faultWriter delivers output in chunks and kills the "process" at the planned byte.
type faultWriter struct {
	w       io.Writer
	limit   int // -1 none
	exit    int
	written int
	chunk   int
	split   int // single split position (>0) or 0
}

func (f *faultWriter) Write(p []byte) (int, error) {
	total := 0
	for len(p) > 0 {
		n := len(p)
		if f.chunk > 0 && n > f.chunk {
			n = f.chunk
		}
		if f.split > 0 && f.written < f.split && f.written+n > f.split {
			n = f.split - f.written
		}
		if f.limit >= 0 && f.written+n > f.limit {
			n = f.limit - f.written
		}
		if n > 0 {
			m, err := f.w.Write(p[:n])
			f.written += m
			total += m
			if err != nil {
				panic(die{-13}) // SIGPIPE
			}
			p = p[n:]
		}
		if f.limit >= 0 && f.written >= f.limit {
			panic(die{f.exit})
		}
	}
	return total, nil
}

// Run executes one command. It returns the exit status (negative = killed by
// that signal) and the log record.
func (e *Env) Run(args []string, environ []string, stdin io.Reader, stdout io.Writer, nth int) (exit int, inv Invocation) {
	kind, rest, noRepl := Classify(args)
	inv = Invocation{Kind: kind, Nth: nth, Args: args, NoRepl: noRepl}
	for _, kv := range environ {
		if strings.HasPrefix(kv, "GIT_DIR=") {
			inv.GitDir = kv[len("GIT_DIR="):]
		}
		if strings.HasPrefix(kv, "GIT_GRAFT_FILE=") {
			inv.Graft = kv[len("GIT_GRAFT_FILE="):]
		}
	}
	if gd := GlobalGitDir(args); gd != "" {
		inv.GitDir = gd
	}
	var fault *Fault
	for i := range e.Plan.Faults {
		if e.Plan.Faults[i].Kind == kind && e.Plan.Faults[i].Nth == nth {
			fault = &e.Plan.Faults[i]
		}
	}
	fw := &faultWriter{w: stdout, limit: -1, chunk: e.Plan.Chunk}
	if e.Plan.SplitAt != nil {
		fw.split = e.Plan.SplitAt[kind]
	}
	stdinLimit := -1
	if fault != nil {
		if fault.StdoutBytes >= 0 && !fault.AtExit {
			fw.limit = fault.StdoutBytes
			fw.exit = fault.Exit
		}
		if fault.StdinLines >= 0 {
			stdinLimit = fault.StdinLines
		}
	}
	var stdinLog bytes.Buffer
	var in *bufio.Reader
	if stdin != nil {
		in = bufio.NewReader(io.TeeReader(stdin, &stdinLog))
	}
	linesRead := 0
	readLine := func() (string, bool) {
		if in == nil {
			return "", false
		}
		if stdinLimit >= 0 && linesRead >= stdinLimit {
			panic(die{fault.Exit})
		}
		s, err := in.ReadString('\n')
		if err != nil && s == "" {
			return "", false
		}
		linesRead++
		return strings.TrimRight(s, "\n"), true
	}

	func() {
		defer func() {
			if r := recover(); r != nil {
				if d, ok := r.(die); ok {
					exit = d.code
					return
				}
				panic(r)
			}
		}()
		if fw.limit == 0 {
			panic(die{fw.exit})
		}
		exit = e.dispatch(kind, rest, readLine, fw, &inv)
		if stdinLimit >= 0 && linesRead >= stdinLimit && exit == 0 {
			// planned to die after that many lines but stdin ended exactly there
			exit = fault.Exit
		}
		if fault != nil && fault.AtExit {
			exit = fault.Exit
		}
	}()
	inv.Stdin = stdinLog.String()
	inv.OutLen = fw.written
	inv.Exit = exit
	return exit, inv
}

func (e *Env) deleted(id mrepo.ID) bool {
	for _, d := range e.Plan.Deleted {
		if d == id {
			return true
		}
	}
	return e.Repo.Missing[id]
}

func (e *Env) dispatch(kind string, rest []string, readLine func() (string, bool), out io.Writer, inv *Invocation) int {
	switch kind {
	case KRevParseGitDir:
		gd := e.Plan.GitDir
		if gd == "" {
			gd = ".git"
		}
		fmt.Fprintf(out, "%s\n", gd)
		return 0
	case KRevParseFacts:
		for _, x := range rest {
			switch x {
			case "--git-dir", "--absolute-git-dir":
				gd := e.Plan.GitDir
				if gd == "" {
					gd = ".git"
				}
				fmt.Fprintf(out, "%s\n", gd)
			case "--is-shallow-repository":
				fmt.Fprintf(out, "%v\n", e.Plan.ShallowPath != "")
			case "--is-bare-repository", "--is-inside-git-dir":
				fmt.Fprintln(out, "false")
			case "--is-inside-work-tree":
				fmt.Fprintln(out, "true")
			}
		}
		return 0
	case KRevParseGitPath:
		if rest[0] == "shallow" && e.Plan.ShallowPath != "" {
			fmt.Fprintf(out, "%s\n", e.Plan.ShallowPath)
			return 0
		}
		fmt.Fprintf(out, "/nonexistent-model-git-dir/%s\n", rest[0])
		return 0
	case KConfigList:
		var b bytes.Buffer
		for _, c := range e.Repo.Config {
			if c.Value == "\x00novalue" {
				fmt.Fprintf(&b, "%s\x00", strings.ToLower(configKeyCanon(c.Key)))
			} else {
				fmt.Fprintf(&b, "%s\n%s\x00", configKeyCanon(c.Key), c.Value)
			}
		}
		b.WriteString("advice.graftfiledeprecated\nfalse\x00")
		out.Write(b.Bytes())
		return 0
	case KConfigGet:
		return e.configGet(rest, out)
	case KForEachRef:
		refs := e.Repo.Refs
		idx := make([]int, len(refs))
		for i := range idx {
			idx[i] = i
		}
		if e.Plan.RefOrder != nil {
			idx = e.Plan.RefOrder
		}
		w := bufio.NewWriter(out)
		for _, i := range idx {
			r := refs[i]
			o := e.Repo.Objects[r.ID]
			if o == nil || e.deleted(r.ID) {
				w.Flush()
				return 128
			}
			line, _ := FormatRef(rest[0], string(r.ID), fmt.Sprint(o.Kind), o.Size, r.Name)
			fmt.Fprintf(w, "%s\n", line)
		}
		w.Flush()
		return 0
	case KRevList:
		var roots []mrepo.ID
		for {
			l, ok := readLine()
			if !ok {
				break
			}
			if l == "" {
				continue
			}
			roots = append(roots, mrepo.ID(l))
		}
		return e.revList(roots, out)
	case KBatchCheck, KBatch:
		w := bufio.NewWriterSize(out, 1<<16)
		n := 0
		for {
			l, ok := readLine()
			if !ok {
				break
			}
			id := mrepo.ID(l)
			o := e.Repo.Objects[id]
			if o == nil || e.deleted(id) {
				fmt.Fprintf(w, "%s missing\n", l)
			} else {
				fmt.Fprintf(w, "%s %s %d\n", id, o.Kind, o.Size)
				if kind == KBatch {
					if o.Virtual {
						// never requested by git-sizer; would be unbounded
						w.Flush()
						return 128
					}
					w.Write(o.Body)
					w.WriteByte('\n')
				}
				inv.Served = append(inv.Served, string(id))
			}
			n++
			if e.Plan.FlushEvery > 0 && n%e.Plan.FlushEvery == 0 {
				w.Flush()
			}
		}
		w.Flush()
		return 0
	case KRevParseVerify:
		id, err := e.Resolve(rest[0])
		if err != nil {
			return 128
		}
		fmt.Fprintf(out, "%s\n", id)
		return 0
	}
	return 129
}

func configKeyCanon(k string) string {
	// section and variable name lower-cased, subsection kept
	i := strings.IndexByte(k, '.')
	j := strings.LastIndexByte(k, '.')
	if i < 0 {
		return strings.ToLower(k)
	}
	if i == j {
		return strings.ToLower(k)
	}
	return strings.ToLower(k[:i]) + k[i:j] + strings.ToLower(k[j:])
}

func (e *Env) configGet(rest []string, out io.Writer) int {
	typ := ""
	key := rest[0]
	if len(rest) == 2 {
		typ, key = rest[0], rest[1]
	}
	key = configKeyCanon(key)
	found := false
	val := ""
	for _, c := range e.Repo.Config {
		if configKeyCanon(c.Key) == key {
			found = true
			val = c.Value
		}
	}
	if !found {
		return 1
	}
	switch typ {
	case "--bool":
		switch strings.ToLower(val) {
		case "true", "yes", "on", "1", "\x00novalue":
			fmt.Fprintln(out, "true")
		case "false", "no", "off", "0", "":
			fmt.Fprintln(out, "false")
		default:
			if n, err := strconv.Atoi(val); err == nil {
				fmt.Fprintln(out, n != 0)
				return 0
			}
			return 128
		}
	case "--int":
		n, err := strconv.ParseInt(val, 10, 64)
		if err != nil {
			return 128
		}
		fmt.Fprintln(out, n)
	default:
		if val == "\x00novalue" {
			val = ""
		}
		fmt.Fprintln(out, val)
	}
	return 0
}

// Listing is the imitation of `git rev-list --objects --date-order` for the
// given roots: the ordered ids and for each non-commit the path column.
type Listing struct {
	IDs      []mrepo.ID
	Path     map[mrepo.ID]string
	IsCommit map[mrepo.ID]bool
}

// DefaultListing imitates git's own order: commits in date order subject to
// children-before-parents, then the objects pending from the roots in input
// order (tag chains, trees, blobs), then the commits' trees depth-first.
func DefaultListing(r *mrepo.Repo, roots []mrepo.ID) (*Listing, error) {
	l := &Listing{Path: map[mrepo.ID]string{}, IsCommit: map[mrepo.ID]bool{}}
	seen := map[mrepo.ID]bool{}
	type pend struct {
		id   mrepo.ID
		name string
	}
	var pending []pend
	var tips []mrepo.ID
	for _, id := range roots {
		cur := id
		for {
			o, ok := r.Objects[cur]
			if !ok {
				return nil, fmt.Errorf("bad object %s", cur)
			}
			if o.Kind == mrepo.Tag {
				if !seen[cur] {
					seen[cur] = true
					pending = append(pending, pend{cur, o.TagName})
				}
				cur = o.Target
				continue
			}
			if o.Kind == mrepo.Commit {
				tips = append(tips, cur)
			} else {
				pending = append(pending, pend{cur, ""})
			}
			break
		}
	}
	// commits: all reachable, sorted by --date-order
	reach := map[mrepo.ID]bool{}
	var all []mrepo.ID
	st := append([]mrepo.ID(nil), tips...)
	for len(st) > 0 {
		c := st[len(st)-1]
		st = st[:len(st)-1]
		if reach[c] {
			continue
		}
		o, ok := r.Objects[c]
		if !ok || o.Kind != mrepo.Commit {
			return nil, fmt.Errorf("bad commit %s", c)
		}
		reach[c] = true
		all = append(all, c)
		st = append(st, o.Parents...)
	}
	indeg := map[mrepo.ID]int{}
	for _, c := range all {
		for _, p := range r.Objects[c].Parents {
			indeg[p]++
		}
	}
	// stable order for ties: by time desc then by id
	var queue []mrepo.ID
	for _, c := range all {
		if indeg[c] == 0 {
			queue = append(queue, c)
		}
	}
	less := func(a, b mrepo.ID) bool {
		oa, ob := r.Objects[a], r.Objects[b]
		if oa.Time != ob.Time {
			return oa.Time > ob.Time
		}
		return a < b
	}
	var commits []mrepo.ID
	for len(queue) > 0 {
		sort.SliceStable(queue, func(i, j int) bool { return less(queue[i], queue[j]) })
		c := queue[0]
		queue = queue[1:]
		commits = append(commits, c)
		// parents become available; de-duplicate repeated parents
		done := map[mrepo.ID]bool{}
		for _, p := range r.Objects[c].Parents {
			indeg[p]--
			if indeg[p] == 0 && !done[p] {
				done[p] = true
				queue = append(queue, p)
			}
		}
	}
	for _, c := range commits {
		seen[c] = true
		l.IDs = append(l.IDs, c)
		l.IsCommit[c] = true
		pending = append(pending, pend{r.Objects[c].TreeID, ""})
	}
	var walkTree func(id mrepo.ID, path string) error
	walkTree = func(id mrepo.ID, path string) error {
		if seen[id] {
			return nil
		}
		o, ok := r.Objects[id]
		if !ok {
			return fmt.Errorf("missing tree %s", id)
		}
		seen[id] = true
		l.IDs = append(l.IDs, id)
		l.Path[id] = path
		for _, en := range o.Entries {
			p := en.Name
			if path != "" {
				p = path + "/" + en.Name
			}
			switch {
			case en.IsTree():
				if err := walkTree(en.Child, p); err != nil {
					return err
				}
			case en.IsGitlink():
			default:
				if !seen[en.Child] {
					seen[en.Child] = true
					l.IDs = append(l.IDs, en.Child)
					l.Path[en.Child] = p
				}
			}
		}
		return nil
	}
	for _, p := range pending {
		o, ok := r.Objects[p.id]
		if !ok {
			return nil, fmt.Errorf("missing object %s", p.id)
		}
		switch o.Kind {
		case mrepo.Tag:
			// tags were marked seen when queued
			l.IDs = append(l.IDs, p.id)
			l.Path[p.id] = p.name
		case mrepo.Tree:
			if err := walkTree(p.id, p.name); err != nil {
				return nil, err
			}
		case mrepo.Blob:
			if !seen[p.id] {
				seen[p.id] = true
				l.IDs = append(l.IDs, p.id)
				l.Path[p.id] = p.name
			}
		}
	}
	return l, nil
}

func (e *Env) revList(roots []mrepo.ID, out io.Writer) int {
	for _, id := range roots {
		if _, ok := e.Repo.Objects[id]; !ok || e.deleted(id) {
			return 128
		}
	}
	l, err := DefaultListing(e.Repo, roots)
	if err != nil {
		return 128
	}
	// a deleted commit or tree makes the traversal fail (git must parse them);
	// a deleted blob is not noticed by rev-list.
	for _, id := range l.IDs {
		if e.deleted(id) && e.Repo.Objects[id].Kind != mrepo.Blob {
			return 128
		}
	}
	ids := l.IDs
	if e.Plan.ListOrder != nil {
		// the planned order governs the relative order, but what is listed is
		// always exactly what is reachable from the roots actually received
		actual := map[mrepo.ID]bool{}
		for _, id := range l.IDs {
			actual[id] = true
		}
		planned := map[mrepo.ID]bool{}
		ids = nil
		for _, id := range e.Plan.ListOrder {
			if actual[id] && !planned[id] {
				planned[id] = true
				ids = append(ids, id)
			}
		}
		for _, id := range l.IDs {
			if !planned[id] {
				ids = append(ids, id)
			}
		}
	}
	w := bufio.NewWriterSize(out, 1<<16)
	for _, id := range ids {
		if l.IsCommit[id] {
			fmt.Fprintf(w, "%s\n", id)
		} else {
			p := l.Path[id]
			if i := strings.IndexByte(p, '\n'); i >= 0 {
				p = p[:i]
			}
			fmt.Fprintf(w, "%s %s\n", id, p)
		}
	}
	w.Flush()
	return 0
}
