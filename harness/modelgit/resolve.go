package modelgit

import (
	"errors"
	"fmt"
	"strconv"
	"strings"

	"verif/mrepo"
)

// ErrUnsupported marks revision syntax the model does not implement; callers
// must treat the answer as unknown (never as a verdict).
var ErrUnsupported = errors.New("modelgit: unsupported revision syntax")

var errNotFound = errors.New("modelgit: unknown revision")

func isHex(s string) bool {
	if s == "" {
		return false
	}
	for _, c := range s {
		if !(c >= '0' && c <= '9' || c >= 'a' && c <= 'f' || c >= 'A' && c <= 'F') {
			return false
		}
	}
	return true
}

func (e *Env) head() (mrepo.ID, bool) {
	h := e.Repo.Head
	if h == "" {
		h = "ref: refs/heads/master"
	}
	if strings.HasPrefix(h, "ref: ") {
		return e.Repo.RefID(h[5:])
	}
	return mrepo.ID(h), true
}

func (e *Env) resolveBase(name string) (mrepo.ID, error) {
	if name == "" {
		return "", errNotFound
	}
	if name != "@" && (strings.Contains(name, "@{") || strings.ContainsAny(name, "{}")) {
		// reflog syntax and the like
		return "", ErrUnsupported
	}
	if strings.ContainsAny(name, "*?[\\ \t\n\x7f") || strings.Contains(name, "..") || strings.HasSuffix(name, ".lock") {
		// characters check-ref-format forbids: no reference of that name can
		// exist, and it is not a hex id either
		return "", errNotFound
	}
	if len(name) == 40 && isHex(name) {
		return mrepo.ID(strings.ToLower(name)), nil
	}
	if name == "HEAD" || name == "@" {
		if id, ok := e.head(); ok {
			return id, nil
		}
		return "", errNotFound
	}
	for _, pat := range []string{"%s", "refs/%s", "refs/tags/%s", "refs/heads/%s", "refs/remotes/%s", "refs/remotes/%s/HEAD"} {
		full := fmt.Sprintf(pat, name)
		if pat == "%s" && !strings.HasPrefix(full, "refs/") {
			continue // top-level pseudo refs other than HEAD are not modelled
		}
		if id, ok := e.Repo.RefID(full); ok {
			return id, nil
		}
	}
	if len(name) >= 4 && len(name) < 40 && isHex(name) {
		var hit mrepo.ID
		n := 0
		low := strings.ToLower(name)
		for id := range e.Repo.Objects {
			if strings.HasPrefix(string(id), low) {
				hit = id
				n++
			}
		}
		if n == 1 {
			return hit, nil
		}
		if n > 1 {
			return "", ErrUnsupported // disambiguation rules not modelled
		}
	}
	// things like "a-1-g<hex>" (describe output) are not modelled
	if i := strings.LastIndex(name, "-g"); i >= 0 && isHex(name[i+2:]) {
		return "", ErrUnsupported
	}
	return "", errNotFound
}

func (e *Env) peel(id mrepo.ID, want string) (mrepo.ID, error) {
	for {
		o, ok := e.Repo.Objects[id]
		if !ok || e.deleted(id) {
			return "", errNotFound
		}
		switch want {
		case "object":
			return id, nil
		case "":
			if o.Kind != mrepo.Tag {
				return id, nil
			}
		case "tag":
			if o.Kind == mrepo.Tag {
				return id, nil
			}
			return "", errNotFound
		default:
			if o.Kind.String() == want {
				return id, nil
			}
			if want == "tree" && o.Kind == mrepo.Commit {
				id = o.TreeID
				continue
			}
		}
		if o.Kind != mrepo.Tag {
			return "", errNotFound
		}
		id = o.Target
	}
}

func (e *Env) resolveRev(s string) (mrepo.ID, error) {
	// find the end of the base: first '^' or '~'
	i := strings.IndexAny(s, "^~")
	base := s
	suffix := ""
	if i >= 0 {
		base, suffix = s[:i], s[i:]
	}
	id, err := e.resolveBase(base)
	if err != nil {
		return "", err
	}
	for suffix != "" {
		switch {
		case strings.HasPrefix(suffix, "^{"):
			j := strings.IndexByte(suffix, '}')
			if j < 0 {
				return "", errNotFound
			}
			typ := suffix[2:j]
			suffix = suffix[j+1:]
			switch typ {
			case "", "commit", "tree", "blob", "tag", "object":
			default:
				if strings.HasPrefix(typ, "/") {
					return "", ErrUnsupported
				}
				return "", errNotFound
			}
			id, err = e.peel(id, typ)
			if err != nil {
				return "", err
			}
		case suffix[0] == '^' || suffix[0] == '~':
			op := suffix[0]
			j := 1
			for j < len(suffix) && suffix[j] >= '0' && suffix[j] <= '9' {
				j++
			}
			n := 1
			if j > 1 {
				n, _ = strconv.Atoi(suffix[1:j])
			}
			if j < len(suffix) && suffix[j] != '^' && suffix[j] != '~' {
				// e.g. ^@ ^! ^-
				return "", ErrUnsupported
			}
			suffix = suffix[j:]
			id, err = e.peel(id, "commit")
			if err != nil {
				return "", err
			}
			if op == '^' {
				if n == 0 {
					continue
				}
				ps := e.Repo.Objects[id].Parents
				if n > len(ps) {
					return "", errNotFound
				}
				id = ps[n-1]
			} else {
				for k := 0; k < n; k++ {
					ps := e.Repo.Objects[id].Parents
					if len(ps) == 0 {
						return "", errNotFound
					}
					id = ps[0]
					if _, err = e.peel(id, "commit"); err != nil {
						return "", err
					}
				}
			}
		default:
			return "", errNotFound
		}
	}
	if _, ok := e.Repo.Objects[id]; !ok {
		// a full hex id that names nothing: --verify prints it anyway
		if len(s) == 40 && isHex(s) {
			return id, nil
		}
		return "", errNotFound
	}
	return id, nil
}

// Resolve imitates `git rev-parse --verify --end-of-options <expr>` for the
// subset of revision syntax git-sizer's descriptions and the harness use.
func (e *Env) Resolve(expr string) (mrepo.ID, error) {
	if strings.HasPrefix(expr, "-") || strings.HasPrefix(expr, ":") || strings.Contains(expr, "..") {
		return "", ErrUnsupported
	}
	id, err := e.resolveRev(expr)
	if err == nil {
		return id, nil
	}
	firstErr := err
	// <tree-ish>:<path>
	depth := 0
	colon := -1
	for i := 0; i < len(expr); i++ {
		c := expr[i]
		if c == '{' {
			depth++
		} else if depth > 0 && c == '}' {
			depth--
		} else if depth == 0 && c == ':' {
			colon = i
			break
		}
	}
	if colon < 0 {
		return "", firstErr
	}
	left, path := expr[:colon], expr[colon+1:]
	tid, err := e.resolveRev(left)
	if err != nil {
		return "", err
	}
	tid, err = e.peel(tid, "tree")
	if err != nil {
		return "", err
	}
	if path == "" {
		return tid, nil
	}
	if strings.HasPrefix(path, "./") || strings.HasPrefix(path, "../") || path == "." || path == ".." ||
		strings.HasPrefix(path, "/") || strings.HasSuffix(path, "/") || strings.Contains(path, "//") {
		return "", ErrUnsupported
	}
	cur := tid
	comps := strings.Split(path, "/")
	for ci, comp := range comps {
		o, ok := e.Repo.Objects[cur]
		if !ok || o.Kind != mrepo.Tree || e.deleted(cur) {
			return "", errNotFound
		}
		found := false
		for _, en := range o.Entries {
			if en.Name == comp {
				if ci < len(comps)-1 && !en.IsTree() {
					return "", errNotFound
				}
				cur = en.Child
				found = true
				break
			}
		}
		if !found {
			return "", errNotFound
		}
	}
	return cur, nil
}
