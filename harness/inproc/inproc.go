// Package inproc runs the real sizes.CollectReferences and
// sizes.ScanRepositoryUsingGraph in-process against the model git (through the
// shim command stage of shimpipe).
package inproc

import (
	"context"
	"fmt"
	"io"
	"os/exec"
	"runtime/debug"
	"sync"
	"time"

	"github.com/github/git-sizer/git"
	"github.com/github/git-sizer/meter"
	"github.com/github/git-sizer/sizes"
	"github.com/github/go-pipe/pipe"
	"verifsched"

	"verif/modelgit"
	"verif/mrepo"
)

var (
	mu   sync.Mutex
	cur  *modelgit.Env
	Log  []modelgit.Invocation
	repo *git.Repository

	exitErrMu sync.Mutex
	exitErrs  = map[int]error{}
)

// exitError returns a genuine *exec.ExitError for the status (negative =
// signal), obtained once from a real child process and cached.
func exitError(code int) error {
	if code == 0 {
		return nil
	}
	exitErrMu.Lock()
	defer exitErrMu.Unlock()
	if e, ok := exitErrs[code]; ok {
		return e
	}
	var cmd *exec.Cmd
	if code > 0 {
		cmd = exec.Command("/bin/sh", "-c", fmt.Sprintf("exit %d", code))
	} else {
		cmd = exec.Command("/bin/sh", "-c", fmt.Sprintf("kill -%d $$", -code))
	}
	err := cmd.Run()
	if err == nil {
		err = fmt.Errorf("model exit status %d", code)
	}
	exitErrs[code] = err
	return err
}

func handler(cmd *exec.Cmd, stdin io.Reader, stdout io.Writer) error {
	mu.Lock()
	env := cur
	args := cmd.Args[1:]
	kind, _, _ := modelgit.Classify(args)
	nth := env.Count[kind]
	env.Count[kind]++
	mu.Unlock()
	exit, inv := env.Run(args, cmd.Env, stdin, stdout, nth)
	mu.Lock()
	Log = append(Log, inv)
	mu.Unlock()
	return exitError(exit)
}

// Install wires the model git into the shim pipe. Call once.
func Install() {
	pipe.Handler = handler
	repo = git.VerifNewRepository("/model/.git", "/model/bin/git")
}

func Repo() *git.Repository { return repo }

// SimpleGrouper walks the references accepted by Walk and puts everything in
// no group (the refopts machinery is exercised by C06/C07).
type SimpleGrouper struct {
	Walk func(refname string) bool
}

func (g SimpleGrouper) Categorize(refname string) (bool, []sizes.RefGroupSymbol) {
	return g.Walk(refname), nil
}
func (g SimpleGrouper) Groups() []sizes.RefGroup { return nil }

// Result of one in-process scan.
type Result struct {
	HS       sizes.HistorySize
	Err      error
	Panic    any
	Stack    string
	Roots    []sizes.Root
	RefRoots []sizes.RefRoot
	Walked   []mrepo.ID
	Log      []modelgit.Invocation
	// Hang: the scan did not return within ScanHorizon
	Hang bool
}

// Unmodelled returns the first git command of the run that the model git does
// not implement but that only reads ("" if there is none): the harness then
// has to be extended, the run is no verdict.
func (r *Result) Unmodelled() string {
	for _, inv := range r.Log {
		if inv.Kind == modelgit.KUnexpected && modelgit.LooksReadOnly(inv.Args) {
			return fmt.Sprint(inv.Args)
		}
	}
	return ""
}

// CurrentUnmodelled returns the first read-only git command of the latest
// in-process scan that the model git does not implement ("" if none).
func CurrentUnmodelled() string {
	mu.Lock()
	defer mu.Unlock()
	for _, inv := range Log {
		if inv.Kind == modelgit.KUnexpected && modelgit.LooksReadOnly(inv.Args) {
			return fmt.Sprint(inv.Args)
		}
	}
	return ""
}

// Scan runs CollectReferences + ScanRepositoryUsingGraph on the model.
// explicit are ROOT arguments (name, id) appended after the references.
func Scan(env *modelgit.Env, rg sizes.RefGrouper, explicit [][2]string, style sizes.NameStyle, progress meter.Progress) (res Result) {
	if verifsched.S != nil {
		// under the cooperative scheduler a hang is a deadlock the scheduler reports
		return scan(env, rg, explicit, style, progress)
	}
	// free-running: a scan takes milliseconds; one that has not returned after
	// ScanHorizon hangs (its goroutines are abandoned, the worker goes on)
	done := make(chan Result, 1)
	go func() { done <- scan(env, rg, explicit, style, progress) }()
	select {
	case r := <-done:
		return r
	case <-time.After(ScanHorizon):
		mu.Lock()
		log := append([]modelgit.Invocation(nil), Log...)
		mu.Unlock()
		return Result{Hang: true, Err: fmt.Errorf("the scan did not return within %v (hang)", ScanHorizon), Log: log}
	}
}

// ScanHorizon is the wall-clock limit of one free-running in-process scan.
var ScanHorizon = 60 * time.Second

func scan(env *modelgit.Env, rg sizes.RefGrouper, explicit [][2]string, style sizes.NameStyle, progress meter.Progress) (res Result) {
	mu.Lock()
	cur = env
	Log = Log[:0]
	mu.Unlock()
	if progress == nil {
		progress = meter.NoProgressMeter
	}
	defer func() {
		if r := recover(); r != nil {
			res.Panic = r
			res.Stack = string(debug.Stack())
		}
		mu.Lock()
		res.Log = append([]modelgit.Invocation(nil), Log...)
		mu.Unlock()
	}()
	ctx := context.Background()
	refRoots, err := sizes.CollectReferences(ctx, repo, rg)
	if err != nil {
		res.Err = fmt.Errorf("determining which reference to scan: %w", err)
		return
	}
	res.RefRoots = refRoots
	roots := make([]sizes.Root, 0, len(refRoots)+len(explicit))
	for _, rr := range refRoots {
		roots = append(roots, rr)
		if rr.Walk() {
			res.Walked = append(res.Walked, mrepo.ID(rr.OID().String()))
		}
	}
	for _, e := range explicit {
		oid, err := git.NewOID(e[1])
		if err != nil {
			res.Err = err
			return
		}
		roots = append(roots, sizes.NewExplicitRoot(e[0], oid))
		res.Walked = append(res.Walked, mrepo.ID(e[1]))
	}
	res.Roots = roots
	hs, err := sizes.ScanRepositoryUsingGraph(ctx, repo, roots, style, progress)
	if err != nil {
		res.Err = fmt.Errorf("error scanning repository: %w", err)
		return
	}
	res.HS = hs
	return
}

// Numbers extracts the numeric results under their JSON v1 keys.
func Numbers(hs *sizes.HistorySize) map[string]uint64 {
	u := func(v interface{ ToUint64() (uint64, bool) }) uint64 { x, _ := v.ToUint64(); return x }
	return map[string]uint64{
		"unique_commit_count":          u(hs.UniqueCommitCount),
		"unique_commit_size":           u(hs.UniqueCommitSize),
		"max_commit_size":              u(hs.MaxCommitSize),
		"max_history_depth":            u(hs.MaxHistoryDepth),
		"max_parent_count":             u(hs.MaxParentCount),
		"unique_tree_count":            u(hs.UniqueTreeCount),
		"unique_tree_size":             u(hs.UniqueTreeSize),
		"unique_tree_entries":          u(hs.UniqueTreeEntries),
		"max_tree_entries":             u(hs.MaxTreeEntries),
		"unique_blob_count":            u(hs.UniqueBlobCount),
		"unique_blob_size":             u(hs.UniqueBlobSize),
		"max_blob_size":                u(hs.MaxBlobSize),
		"unique_tag_count":             u(hs.UniqueTagCount),
		"max_tag_depth":                u(hs.MaxTagDepth),
		"max_path_depth":               u(hs.MaxPathDepth),
		"max_path_length":              u(hs.MaxPathLength),
		"max_expanded_tree_count":      u(hs.MaxExpandedTreeCount),
		"max_expanded_blob_count":      u(hs.MaxExpandedBlobCount),
		"max_expanded_blob_size":       u(hs.MaxExpandedBlobSize),
		"max_expanded_link_count":      u(hs.MaxExpandedLinkCount),
		"max_expanded_submodule_count": u(hs.MaxExpandedSubmoduleCount),
	}
}
