// Package cli runs the git-sizer executable built from /repo's working tree.
package cli

import (
	"bytes"
	"encoding/gob"
	"encoding/json"
	"os"
	"os/exec"
	"path/filepath"
	"syscall"
	"time"

	"verif/modelgit"
	"verif/mrepo"
	"verif/realgit"
)

const Sizer = "/verif/.build/git-sizer"
const FakeGitDir = "/verif/.build/fakegit"

type Result struct {
	Stdout, Stderr []byte
	Exit           int
	TimedOut       bool
	Wall           time.Duration
}

// Run executes git-sizer in dir with the given PATH prefix and extra env.
func Run(dir string, pathPrefix string, extraEnv []string, horizon time.Duration, args ...string) Result {
	cmd := exec.Command(Sizer, args...)
	cmd.Dir = dir
	env := realgit.CleanEnv("/nonexistent-home")
	if pathPrefix != "" {
		env[0] = "PATH=" + pathPrefix + ":/usr/bin:/bin"
	}
	cmd.Env = append(env, extraEnv...)
	var o, e bytes.Buffer
	cmd.Stdout, cmd.Stderr = &o, &e
	cmd.SysProcAttr = &syscall.SysProcAttr{Setpgid: true}
	start := time.Now()
	if err := cmd.Start(); err != nil {
		return Result{Exit: -1, Stderr: []byte(err.Error())}
	}
	done := make(chan error, 1)
	go func() { done <- cmd.Wait() }()
	var err error
	res := Result{}
	select {
	case err = <-done:
	case <-time.After(horizon):
		res.TimedOut = true
		syscall.Kill(-cmd.Process.Pid, syscall.SIGKILL)
		err = <-done
	}
	// make sure no straggler of the process group survives
	syscall.Kill(-cmd.Process.Pid, syscall.SIGKILL)
	res.Wall = time.Since(start)
	res.Stdout, res.Stderr = o.Bytes(), e.Bytes()
	if err != nil {
		if ee, ok := err.(*exec.ExitError); ok {
			res.Exit = ee.ExitCode()
		} else {
			res.Exit = -1
		}
	}
	return res
}

// FakeSession prepares the files fakegit reads: the model repository and the
// plan; Log returns the invocations it recorded.
type FakeSession struct {
	Dir string
}

func NewFakeSession(dir string, r *mrepo.Repo, plan *modelgit.Plan) (*FakeSession, error) {
	if err := os.MkdirAll(dir, 0o755); err != nil {
		return nil, err
	}
	f, err := os.Create(filepath.Join(dir, "repo.gob"))
	if err != nil {
		return nil, err
	}
	if err := gob.NewEncoder(f).Encode(r); err != nil {
		return nil, err
	}
	f.Close()
	s := &FakeSession{Dir: dir}
	return s, s.SetPlan(plan)
}

func (s *FakeSession) SetPlan(plan *modelgit.Plan) error {
	if plan == nil {
		plan = &modelgit.Plan{}
	}
	b, _ := json.Marshal(plan)
	os.Remove(filepath.Join(s.Dir, "log.jsonl"))
	return os.WriteFile(filepath.Join(s.Dir, "plan.json"), b, 0o644)
}

func (s *FakeSession) Env() []string {
	return []string{"FAKEGIT_DIR=" + s.Dir}
}

func (s *FakeSession) Log() []modelgit.Invocation {
	b, err := os.ReadFile(filepath.Join(s.Dir, "log.jsonl"))
	if err != nil {
		return nil
	}
	var out []modelgit.Invocation
	dec := json.NewDecoder(bytes.NewReader(b))
	for dec.More() {
		var inv modelgit.Invocation
		if dec.Decode(&inv) != nil {
			break
		}
		out = append(out, inv)
	}
	return out
}
