module verif

go 1.23

require (
	github.com/github/git-sizer v0.0.0
	github.com/github/go-pipe v1.0.2
	github.com/spf13/pflag v1.0.5
	verifsched v0.0.0
)

require github.com/cli/safeexec v1.0.0 // indirect

replace github.com/github/git-sizer => /repo

replace github.com/github/go-pipe => ./shimpipe

replace verifsched => ./vsched
