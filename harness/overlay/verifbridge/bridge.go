//go:build verif

// Package verifbridge re-exports what the verification harness needs from
// git-sizer's internal packages. It exists only in overlay builds.
package verifbridge

import (
	"io"

	"github.com/github/git-sizer/internal/refopts"
	"github.com/github/git-sizer/sizes"
)

type Configger = refopts.Configger
type RefGroupBuilder = refopts.RefGroupBuilder

func NewRefGroupBuilder(c refopts.Configger) (*refopts.RefGroupBuilder, error) {
	return refopts.NewRefGroupBuilder(c)
}

func NewShowRefGrouper(rg sizes.RefGrouper, w io.Writer) sizes.RefGrouper {
	return refopts.NewShowRefGrouper(rg, w)
}
