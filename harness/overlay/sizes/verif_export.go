//go:build verif

package sizes

import (
	"fmt"
	"sort"
	"strings"

	"github.com/github/git-sizer/git"
)

// VerifStateKey returns a canonical dump of the entire private state of g
// (every map sorted), used by the explicit-state search to deduplicate states.
func (g *Graph) VerifStateKey() string {
	var b strings.Builder
	{
		ks := make([]string, 0, len(g.blobSizes))
		for k, v := range g.blobSizes {
			ks = append(ks, fmt.Sprintf("b%s=%d", k, v.Size))
		}
		sort.Strings(ks)
		b.WriteString(strings.Join(ks, ","))
	}
	{
		ks := make([]string, 0, len(g.treeSizes))
		for k, v := range g.treeSizes {
			ks = append(ks, fmt.Sprintf("t%s=%v", k, v))
		}
		sort.Strings(ks)
		b.WriteString("|" + strings.Join(ks, ","))
	}
	{
		ks := make([]string, 0, len(g.treeRecords))
		for k, v := range g.treeRecords {
			ks = append(ks, fmt.Sprintf("T%s=%d/%d/%v/%d/%d", k, v.pending, len(v.listeners), v.size, v.objectSize, v.entryCount))
		}
		sort.Strings(ks)
		b.WriteString("|" + strings.Join(ks, ","))
	}
	{
		ks := make([]string, 0, len(g.commitSizes))
		for k, v := range g.commitSizes {
			ks = append(ks, fmt.Sprintf("c%s=%v", k, v))
		}
		sort.Strings(ks)
		b.WriteString("|" + strings.Join(ks, ","))
	}
	{
		ks := make([]string, 0, len(g.tagSizes))
		for k, v := range g.tagSizes {
			ks = append(ks, fmt.Sprintf("g%s=%v", k, v))
		}
		sort.Strings(ks)
		b.WriteString("|" + strings.Join(ks, ","))
	}
	{
		ks := make([]string, 0, len(g.tagRecords))
		for k, v := range g.tagRecords {
			ks = append(ks, fmt.Sprintf("G%s=%d/%d/%v/%d", k, v.pending, len(v.listeners), v.size, v.objectSize))
		}
		sort.Strings(ks)
		b.WriteString("|" + strings.Join(ks, ","))
	}
	b.WriteString("|" + g.historySize.String())
	{
		ks := make([]string, 0, len(g.historySize.ReferenceGroups))
		for k, v := range g.historySize.ReferenceGroups {
			ks = append(ks, fmt.Sprintf("%s=%d", k, *v))
		}
		sort.Strings(ks)
		b.WriteString("|" + strings.Join(ks, ","))
	}
	b.WriteString(fmt.Sprintf("|mcs=%d,tag=%d,hd=%d", g.historySize.MaxCommitSize, g.historySize.MaxTagDepth, g.historySize.MaxHistoryDepth))
	return b.String()
}

// VerifPending reports how many tree and tag records are still pending.
func (g *Graph) VerifPending() (int, int) {
	return len(g.treeRecords), len(g.tagRecords)
}

// VerifRecordCommit forwards to the path resolver, as ScanRepositoryUsingGraph does.
func (g *Graph) VerifRecordCommit(oid, tree git.OID) {
	g.pathResolver.RecordCommit(oid, tree)
}
