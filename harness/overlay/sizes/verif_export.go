//go:build verif

package sizes

import (
	"fmt"
	"reflect"
	"sort"
	"strings"
	"unsafe"

	"github.com/github/git-sizer/git"
)

// This file is overlaid into package sizes at build time. It deliberately
// names no private field or type of the package: the private state is reached
// by reflection, so that renaming or reshaping private declarations does not
// break the harness build.

// VerifStateKey returns a canonical dump of the entire private state of g
// (every map sorted by key), used by the explicit-state search to deduplicate
// states. Path bookkeeping (the path resolver and the *Path pointers of the
// result) is left out: which path names an object may depend on the order of
// arrival, the property is about the numbers.
func (g *Graph) VerifStateKey() string {
	var b strings.Builder
	verifDump(&b, reflect.ValueOf(g).Elem(), 0)
	return b.String()
}

var (
	verifPathType     = reflect.TypeOf((*Path)(nil))
	verifResolverType = reflect.TypeOf((*PathResolver)(nil)).Elem()
)

func verifDump(b *strings.Builder, v reflect.Value, depth int) {
	if depth > 12 {
		b.WriteString("...")
		return
	}
	t := v.Type()
	if t == verifPathType || t == verifResolverType || t.PkgPath() == "sync" || t.PkgPath() == "sync/atomic" {
		return
	}
	switch v.Kind() {
	case reflect.Bool:
		fmt.Fprintf(b, "%v", v.Bool())
	case reflect.Int, reflect.Int8, reflect.Int16, reflect.Int32, reflect.Int64:
		fmt.Fprintf(b, "%d", v.Int())
	case reflect.Uint, reflect.Uint8, reflect.Uint16, reflect.Uint32, reflect.Uint64, reflect.Uintptr:
		fmt.Fprintf(b, "%d", v.Uint())
	case reflect.Float32, reflect.Float64:
		fmt.Fprintf(b, "%g", v.Float())
	case reflect.String:
		fmt.Fprintf(b, "%q", v.String())
	case reflect.Func, reflect.Chan, reflect.UnsafePointer:
		if v.IsNil() {
			b.WriteString("nil")
		} else {
			b.WriteString(v.Kind().String())
		}
	case reflect.Ptr, reflect.Interface:
		if v.IsNil() {
			b.WriteString("nil")
			return
		}
		verifDump(b, v.Elem(), depth+1)
	case reflect.Array:
		if t.Elem().Kind() == reflect.Uint8 {
			for i := 0; i < v.Len(); i++ {
				fmt.Fprintf(b, "%02x", v.Index(i).Uint())
			}
			return
		}
		fallthrough
	case reflect.Slice:
		fmt.Fprintf(b, "[%d:", v.Len())
		if k := t.Elem().Kind(); k != reflect.Func {
			for i := 0; i < v.Len(); i++ {
				verifDump(b, v.Index(i), depth+1)
				b.WriteByte(',')
			}
		}
		b.WriteByte(']')
	case reflect.Map:
		es := make([]string, 0, v.Len())
		it := v.MapRange()
		for it.Next() {
			var e strings.Builder
			verifDump(&e, it.Key(), depth+1)
			e.WriteByte('=')
			verifDump(&e, it.Value(), depth+1)
			es = append(es, e.String())
		}
		sort.Strings(es)
		b.WriteString("{" + strings.Join(es, ",") + "}")
	case reflect.Struct:
		b.WriteByte('(')
		for i := 0; i < v.NumField(); i++ {
			ft := t.Field(i).Type
			if ft == verifPathType || ft == verifResolverType {
				continue
			}
			b.WriteString(t.Field(i).Name)
			b.WriteByte(':')
			verifDump(b, v.Field(i), depth+1)
			b.WriteByte(';')
		}
		b.WriteByte(')')
	default:
		b.WriteString(v.Kind().String())
	}
}

// VerifPending reports how many tree and tag records are still pending: the
// sizes of the private maps whose values are pointers to the pending-record
// types (recognised by the words "tree"/"tag" and "record" in the type name);
// -1 if no such map is found.
func (g *Graph) VerifPending() (int, int) {
	trees, tags := -1, -1
	v := reflect.ValueOf(g).Elem()
	for i := 0; i < v.NumField(); i++ {
		f := v.Field(i)
		if f.Kind() != reflect.Map || f.Type().Elem().Kind() != reflect.Ptr {
			continue
		}
		name := strings.ToLower(f.Type().Elem().Elem().Name())
		if !strings.Contains(name, "record") {
			continue
		}
		switch {
		case strings.Contains(name, "tree"):
			trees = f.Len()
		case strings.Contains(name, "tag"):
			tags = f.Len()
		}
	}
	return trees, tags
}

// VerifRecordCommit forwards to the graph's path resolver, as
// ScanRepositoryUsingGraph does.
func (g *Graph) VerifRecordCommit(oid, tree git.OID) {
	v := reflect.ValueOf(g).Elem()
	for i := 0; i < v.NumField(); i++ {
		f := v.Field(i)
		if f.Type() == verifResolverType && f.CanAddr() {
			pr := reflect.NewAt(f.Type(), unsafe.Pointer(f.UnsafeAddr())).Elem().Interface().(PathResolver)
			if pr != nil {
				pr.RecordCommit(oid, tree)
			}
			return
		}
	}
}
