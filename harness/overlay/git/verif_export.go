//go:build verif

package git

import (
	"reflect"
	"strings"
	"unsafe"
)

// VerifNewRepository builds a Repository value without running git (used by
// the verification harness, whose command stages are in-process models). The
// private fields are found by reflection (the string field whose name mentions
// "dir" takes the git dir, the one mentioning "bin" the git executable), so
// that renaming them does not break the harness build.
func VerifNewRepository(gitDir, gitBin string) *Repository {
	repo := &Repository{}
	v := reflect.ValueOf(repo).Elem()
	set := 0
	for i := 0; i < v.NumField(); i++ {
		f := v.Field(i)
		if f.Kind() != reflect.String {
			continue
		}
		name := strings.ToLower(v.Type().Field(i).Name)
		w := reflect.NewAt(f.Type(), unsafe.Pointer(f.UnsafeAddr())).Elem()
		switch {
		case strings.Contains(name, "dir"):
			w.SetString(gitDir)
			set++
		case strings.Contains(name, "bin"):
			w.SetString(gitBin)
			set++
		}
	}
	if set != 2 {
		panic("verif: cannot locate the git dir and git binary fields of git.Repository")
	}
	return repo
}
