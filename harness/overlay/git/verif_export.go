//go:build verif

package git

// VerifNewRepository builds a Repository value without running git (used by
// the verification harness, whose command stages are in-process models).
func VerifNewRepository(gitDir, gitBin string) *Repository {
	return &Repository{gitDir: gitDir, gitBin: gitBin}
}

// VerifConfigKeyMatchesPrefix exposes the prefix helper.
func VerifConfigKeyMatchesPrefix(key, prefix string) (bool, string) {
	return configKeyMatchesPrefix(key, prefix)
}
