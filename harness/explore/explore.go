// Package explore is the driver shared by all checks: deterministic sharding
// of an enumerated case space over worker subprocesses, crash forensics,
// replay files, counters and evidence.
package explore

import (
	"bufio"
	"bytes"
	"crypto/sha1"
	"encoding/binary"
	"encoding/hex"
	"encoding/json"
	"fmt"
	"os"
	"os/exec"
	"path/filepath"
	"sort"
	"strconv"
	"strings"
	"sync"
	"syscall"
	"time"
)

// Violation is one failed case.
type Violation struct {
	Property string          `json:"property"`
	Class    string          `json:"class"` // short machine-readable class (used by known findings)
	Msg      string          `json:"msg"`
	Case     json.RawMessage `json:"case"` // enough to re-run the case: {"gen":..., "index":..., ...}
	Detail   string          `json:"detail,omitempty"`
	Exe      string          `json:"exe,omitempty"` // harness executable the case must be re-run with ("" = this one)
	// Confirmed: the worker already re-executed the recorded schedule twice with
	// identical observations (schedule-exploration checks); no isolated re-run needed
	Confirmed bool `json:"confirmed,omitempty"`
}

// Counters is what a worker reports.
type Counters struct {
	Evals       int64            `json:"evals"`
	Nontrivial  int64            `json:"nontrivial"`
	States      int64            `json:"states"`
	Transitions int64            `json:"transitions"`
	Validated   int64            `json:"validated"`
	Extra       map[string]int64 `json:"extra,omitempty"`
	Outcomes    map[string]int64 `json:"outcomes,omitempty"` // distinct observed outcomes (bounded)
	Violations  []Violation      `json:"violations,omitempty"`
	Samples     []any            `json:"samples,omitempty"`
	CapsHit     []string         `json:"caps_hit,omitempty"`
	Exhaustive  bool             `json:"exhaustive"`
	Notes       []string         `json:"notes,omitempty"`
}

func (c *Counters) Add(k string, n int64) {
	if c.Extra == nil {
		c.Extra = map[string]int64{}
	}
	c.Extra[k] += n
}

func (c *Counters) Outcome(k string) {
	if c.Outcomes == nil {
		c.Outcomes = map[string]int64{}
	}
	if len(c.Outcomes) < 100000 || c.Outcomes[k] > 0 {
		c.Outcomes[k]++
	}
}

func (c *Counters) Sample(max int, s any) {
	if len(c.Samples) < max {
		c.Samples = append(c.Samples, s)
	}
}

// Reclassify, if set, may rewrite a violation before it is filed (the checks
// use it to turn verdicts reached while the model git met a command it does
// not implement into harness errors).
var Reclassify func(v *Violation)

func (c *Counters) Violate(v Violation) {
	if Reclassify != nil {
		Reclassify(&v)
	}
	// at most 40 per class are kept: a frequent class (a known finding met in
	// thousands of cases) must never crowd out a violation of another class
	n := 0
	for i := range c.Violations {
		if c.Violations[i].Class == v.Class {
			n++
		}
	}
	if n < 40 {
		c.Violations = append(c.Violations, v)
	}
	c.Add("violations_total", 1)
}

func (c *Counters) Merge(o *Counters) {
	c.Evals += o.Evals
	c.Nontrivial += o.Nontrivial
	c.States += o.States
	c.Transitions += o.Transitions
	c.Validated += o.Validated
	for k, v := range o.Extra {
		c.Add(k, v)
	}
	for k, v := range o.Outcomes {
		if c.Outcomes == nil {
			c.Outcomes = map[string]int64{}
		}
		c.Outcomes[k] += v
	}
	c.Violations = append(c.Violations, o.Violations...)
	for _, s := range o.Samples {
		if len(c.Samples) < 8 {
			c.Samples = append(c.Samples, s)
		}
	}
	c.CapsHit = append(c.CapsHit, o.CapsHit...)
	c.Notes = append(c.Notes, o.Notes...)
}

// Shard is the worker-side view: which case indices are mine, where to write
// the crash marker, when to stop.
type Shard struct {
	I, N     int
	Only     int64 // >=0: run only this case index
	Deadline time.Time
	marker   *os.File
	idx      int64
	C        Counters
	Tier     string
	expired  bool
}

// Mine tells whether case index i (a global, deterministic enumeration index)
// belongs to this shard; it also records i as the current case for crash
// forensics.
func (s *Shard) Mine(i int64) bool {
	if s.Only >= 0 {
		if i != s.Only {
			return false
		}
	} else if int(i%int64(s.N)) != s.I {
		return false
	}
	if s.marker != nil {
		var b [8]byte
		binary.LittleEndian.PutUint64(b[:], uint64(i))
		syscall.Pwrite(int(s.marker.Fd()), b[:], 0)
	}
	s.idx = i
	return true
}

// Expired reports whether the internal time budget is used up (checked every
// call; the caller stops enumerating and the run is reported non-exhaustive).
func (s *Shard) Expired() bool {
	if s.expired {
		return true
	}
	if !s.Deadline.IsZero() && time.Now().After(s.Deadline) {
		s.expired = true
		s.C.CapsHit = append(s.C.CapsHit, fmt.Sprintf("time budget reached in shard %d at case %d", s.I, s.idx))
	}
	return s.expired
}

func (s *Shard) Index() int64 { return s.idx }

// WorkerFunc runs a shard of one property at one tier.
type WorkerFunc func(s *Shard)

// WorkerMain is called in the worker subprocess.
func WorkerMain(fn WorkerFunc, tier string, i, n int, only int64, markerPath string, budget time.Duration) {
	s := &Shard{I: i, N: n, Only: only, Tier: tier}
	s.C.Exhaustive = true
	if budget > 0 {
		s.Deadline = time.Now().Add(budget)
	}
	if markerPath != "" {
		f, err := os.OpenFile(markerPath, os.O_CREATE|os.O_WRONLY, 0o644)
		if err == nil {
			s.marker = f
		}
	}
	fn(s)
	if s.expired {
		s.C.Exhaustive = false
	}
	out := bufio.NewWriter(os.Stdout)
	enc := json.NewEncoder(out)
	enc.Encode(&s.C)
	out.Flush()
}

// Options of a parent run.
type Options struct {
	Property string
	Tier     string
	Shards   int
	Budget   time.Duration // internal per-worker time budget (0 = none)
	Horizon  time.Duration // hard wall-clock limit for a worker
	Env      []string
	Exe      string // worker executable ("" = this executable)
}

// Crash describes a worker that died.
type Crash struct {
	Shard  int
	Case   int64
	Stderr string
	Exit   string
}

// RunSharded spawns the workers (this executable with the "worker" verb) and
// merges their counters.
func RunSharded(o Options) (*Counters, []Crash, error) {
	if o.Shards <= 0 {
		o.Shards = 16
	}
	if o.Horizon == 0 {
		o.Horizon = 2 * time.Hour
	}
	self, err := os.Executable()
	if err != nil {
		return nil, nil, err
	}
	if o.Exe != "" {
		self = o.Exe
	}
	tmp, err := os.MkdirTemp("", "verif-"+o.Property+"-")
	if err != nil {
		return nil, nil, err
	}
	defer os.RemoveAll(tmp)
	total := &Counters{Exhaustive: true}
	var crashes []Crash
	var mu sync.Mutex
	var wg sync.WaitGroup
	for i := 0; i < o.Shards; i++ {
		wg.Add(1)
		go func(i int) {
			defer wg.Done()
			marker := filepath.Join(tmp, fmt.Sprintf("marker-%d", i))
			cmd := exec.Command(self, "worker", o.Property, o.Tier, strconv.Itoa(i), strconv.Itoa(o.Shards), "-1", marker,
				strconv.FormatInt(int64(o.Budget/time.Millisecond), 10))
			cmd.Env = append(os.Environ(), "GOMAXPROCS=2", "VERIF_WORKER=1")
			cmd.Env = append(cmd.Env, o.Env...)
			var stdout, stderr bytes.Buffer
			cmd.Stdout = &stdout
			cmd.Stderr = &stderr
			cmd.SysProcAttr = &syscall.SysProcAttr{Setpgid: true}
			if err := cmd.Start(); err != nil {
				mu.Lock()
				crashes = append(crashes, Crash{Shard: i, Case: -1, Stderr: err.Error(), Exit: "start"})
				mu.Unlock()
				return
			}
			done := make(chan error, 1)
			go func() { done <- cmd.Wait() }()
			var werr error
			timedOut := false
			select {
			case werr = <-done:
			case <-time.After(o.Horizon):
				timedOut = true
				syscall.Kill(-cmd.Process.Pid, syscall.SIGKILL)
				werr = <-done
			}
			mu.Lock()
			defer mu.Unlock()
			var c Counters
			if werr == nil && json.Unmarshal(stdout.Bytes(), &c) == nil {
				for vi := range c.Violations {
					c.Violations[vi].Exe = o.Exe
				}
				total.Merge(&c)
				if !c.Exhaustive {
					total.Exhaustive = false
				}
				return
			}
			cs := Crash{Shard: i, Case: -1, Stderr: tail(stderr.String(), 4000)}
			if b, err := os.ReadFile(marker); err == nil && len(b) == 8 {
				cs.Case = int64(binary.LittleEndian.Uint64(b))
			}
			if timedOut {
				cs.Exit = "horizon"
			} else if werr != nil {
				cs.Exit = werr.Error()
			} else {
				cs.Exit = "bad worker output"
			}
			crashes = append(crashes, cs)
			total.Exhaustive = false
		}(i)
	}
	wg.Wait()
	sort.Slice(crashes, func(i, j int) bool { return crashes[i].Shard < crashes[j].Shard })
	return total, crashes, nil
}

// RerunCase runs a single case index in a fresh worker n times and returns the
// stderr tails and whether every run failed (crashed or reported a violation).
func RerunCase(exe, property, tier string, idx int64, n int, horizon time.Duration, env []string) (failures int, lastStderr string, lastCounters *Counters) {
	self, _ := os.Executable()
	if exe != "" {
		self = exe
	}
	for k := 0; k < n; k++ {
		cmd := exec.Command(self, "worker", property, tier, "0", "1", strconv.FormatInt(idx, 10), "", "0")
		cmd.Env = append(os.Environ(), "GOMAXPROCS=2", "VERIF_WORKER=1")
		cmd.Env = append(cmd.Env, env...)
		var stdout, stderr bytes.Buffer
		cmd.Stdout = &stdout
		cmd.Stderr = &stderr
		cmd.SysProcAttr = &syscall.SysProcAttr{Setpgid: true}
		if err := cmd.Start(); err != nil {
			continue
		}
		done := make(chan error, 1)
		go func() { done <- cmd.Wait() }()
		var werr error
		select {
		case werr = <-done:
		case <-time.After(horizon):
			syscall.Kill(-cmd.Process.Pid, syscall.SIGKILL)
			werr = fmt.Errorf("horizon %v exceeded: %v", horizon, <-done)
		}
		var c Counters
		if werr != nil {
			failures++
			lastStderr = tail(stderr.String(), 4000) + "\n" + werr.Error()
			continue
		}
		if json.Unmarshal(stdout.Bytes(), &c) == nil {
			lastCounters = &c
			if len(c.Violations) > 0 {
				failures++
			}
		}
	}
	return
}

func tail(s string, n int) string {
	if len(s) > n {
		return "..." + s[len(s)-n:]
	}
	return s
}

// WriteReplay stores a violation under /verif/replays/<prop>/<sha>.json and
// returns the path.
func WriteReplay(root string, v Violation, tier string) string {
	b, _ := json.MarshalIndent(map[string]any{
		"property": v.Property, "tier": tier, "class": v.Class, "msg": v.Msg, "case": v.Case, "detail": v.Detail, "exe": v.Exe,
	}, "", " ")
	h := sha1.Sum(b)
	dir := filepath.Join(root, "replays", v.Property)
	os.MkdirAll(dir, 0o755)
	p := filepath.Join(dir, hex.EncodeToString(h[:8])+".json")
	os.WriteFile(p, b, 0o644)
	return p
}

// Perm calls f with every permutation of 0..n-1 in lexicographic order; f may
// return false to stop.
func Perm(n int, f func(p []int) bool) {
	p := make([]int, n)
	for i := range p {
		p[i] = i
	}
	for {
		if !f(p) {
			return
		}
		i := n - 2
		for i >= 0 && p[i] >= p[i+1] {
			i--
		}
		if i < 0 {
			return
		}
		j := n - 1
		for p[j] <= p[i] {
			j--
		}
		p[i], p[j] = p[j], p[i]
		for a, b := i+1, n-1; a < b; a, b = a+1, b-1 {
			p[a], p[b] = p[b], p[a]
		}
	}
}

// KnownFinding is one line of /verif/known_findings.txt.
type KnownFinding struct {
	Kind     string `json:"kind"` // "finding" or "fixed"
	Property string `json:"property"`
	ID       string `json:"id"`
	What     string `json:"what"`
	Commit   string `json:"commit,omitempty"`
}

func LoadKnown(path string) []KnownFinding {
	// line formats:
	//   finding: property=<id> id=<violation class> <what fails>
	//   fixed: property=<id> <commit> <what failed>
	var out []KnownFinding
	b, err := os.ReadFile(path)
	if err != nil {
		return nil
	}
	for _, l := range strings.Split(string(b), "\n") {
		l = strings.TrimSpace(l)
		if l == "" || strings.HasPrefix(l, "#") {
			continue
		}
		f := strings.Fields(l)
		if len(f) < 3 || !strings.HasPrefix(f[1], "property=") {
			continue
		}
		k := KnownFinding{Property: strings.TrimPrefix(f[1], "property=")}
		switch f[0] {
		case "finding:":
			k.Kind = "finding"
			if !strings.HasPrefix(f[2], "id=") {
				continue
			}
			k.ID = strings.TrimPrefix(f[2], "id=")
			k.What = strings.Join(f[3:], " ")
		case "fixed:":
			k.Kind = "fixed"
			k.Commit = f[2]
			k.What = strings.Join(f[3:], " ")
		default:
			continue
		}
		out = append(out, k)
	}
	return out
}
