// Package oracle computes, from a model repository and a list of walked roots,
// the values git-sizer is required to report. It is written from the property
// statements and shares no code with git-sizer.
package oracle

import (
	"math/bits"
	"sort"

	"verif/mrepo"
)

// N is a natural number that may exceed 64 bits: Inf means "> 2^64-1".
type N struct {
	V   uint64
	Inf bool
}

func Nat(v uint64) N { return N{V: v} }

func (a N) Add(b N) N {
	if a.Inf || b.Inf {
		return N{Inf: true}
	}
	s, c := bits.Add64(a.V, b.V, 0)
	if c != 0 {
		return N{Inf: true}
	}
	return N{V: s}
}

func (a N) Less(b N) bool {
	if a.Inf {
		return false
	}
	if b.Inf {
		return true
	}
	return a.V < b.V
}

func Max(a, b N) N {
	if a.Less(b) {
		return b
	}
	return a
}

const Cap32 = uint64(1<<32 - 1)
const Cap64 = ^uint64(0)

// Rep32 / Rep64: the value a saturating counter of that width must report.
func (a N) Rep32() uint64 { return a.Rep(Cap32) }

func (a N) Rep64() uint64 { return a.Rep(Cap64) }

// Rep: the value a saturating counter of capacity cap must report.
func (a N) Rep(cap uint64) uint64 {
	if a.Inf || a.V >= cap {
		return cap
	}
	return a.V
}

// Expansion of one tree (all seven checkout dimensions).
type Expansion struct {
	Dirs, Files, Bytes, Links, Subs, Depth, Length N
}

type Metric int

const (
	MaxCommitSize Metric = iota
	MaxParents
	MaxTreeEntries
	MaxBlobSize
	MaxHistoryDepth
	MaxTagDepth
	MaxPathDepth
	MaxPathLength
	MaxExpTrees
	MaxExpBlobs
	MaxExpBlobSize
	MaxExpLinks
	MaxExpSubs
	NMetrics
)

var MetricNames = [...]string{"max_commit_size", "max_parent_count", "max_tree_entries", "max_blob_size",
	"max_history_depth", "max_tag_depth", "max_path_depth", "max_path_length", "max_expanded_tree_count",
	"max_expanded_blob_count", "max_expanded_blob_size", "max_expanded_link_count", "max_expanded_submodule_count"}

// Is64 tells which metrics are kept in a 64-bit counter.
func (m Metric) Is64() bool { return m == MaxExpBlobSize }

type Result struct {
	clamp uint64
	Reach map[mrepo.ID]bool
	// census
	Commits, Trees, Blobs, Tags                    N
	CommitBytes, TreeBytes, BlobBytes, TreeEntries N
	Max                                            [NMetrics]N
	Witness                                        [NMetrics]map[mrepo.ID]bool // objects attaining Max (empty if Max is 0 and no object of the kind)
	Depth                                          map[mrepo.ID]N              // per commit: longest chain ending there
	TagDepth                                       map[mrepo.ID]N
	Exp                                            map[mrepo.ID]Expansion
}

// Compute evaluates everything for the objects reachable from roots.
func Compute(r *mrepo.Repo, roots []mrepo.ID) *Result { return ComputeOpt(r, roots, 0) }

// ComputeOpt with clampSize > 0 is NOT the specification: it is the defect
// model "every object size is clamped to clampSize before it is added to any
// total", used only to recognise one known finding precisely.
func ComputeOpt(r *mrepo.Repo, roots []mrepo.ID, clampSize uint64) *Result {
	res := &Result{clamp: clampSize, Reach: map[mrepo.ID]bool{}, Depth: map[mrepo.ID]N{}, TagDepth: map[mrepo.ID]N{}, Exp: map[mrepo.ID]Expansion{}}
	for i := range res.Witness {
		res.Witness[i] = map[mrepo.ID]bool{}
	}
	// reachability (iterative DFS)
	stack := append([]mrepo.ID(nil), roots...)
	for len(stack) > 0 {
		id := stack[len(stack)-1]
		stack = stack[:len(stack)-1]
		if res.Reach[id] {
			continue
		}
		o, ok := r.Objects[id]
		if !ok {
			continue
		}
		res.Reach[id] = true
		switch o.Kind {
		case mrepo.Commit:
			stack = append(stack, o.TreeID)
			stack = append(stack, o.Parents...)
		case mrepo.Tree:
			for _, e := range o.Entries {
				if !e.IsGitlink() {
					stack = append(stack, e.Child)
				}
			}
		case mrepo.Tag:
			stack = append(stack, o.Target)
		}
	}
	ids := make([]mrepo.ID, 0, len(res.Reach))
	for id := range res.Reach {
		ids = append(ids, id)
	}
	sort.Slice(ids, func(i, j int) bool { return ids[i] < ids[j] })

	consider := func(m Metric, id mrepo.ID, v N) {
		cur := res.Max[m]
		switch {
		case cur.Less(v):
			res.Max[m] = v
			res.Witness[m] = map[mrepo.ID]bool{id: true}
		case !v.Less(cur): // equal
			res.Witness[m][id] = true
		}
	}
	one := Nat(1)
	for _, id := range ids {
		o := r.Objects[id]
		switch o.Kind {
		case mrepo.Blob:
			res.Blobs = res.Blobs.Add(one)
			res.BlobBytes = res.BlobBytes.Add(Nat(res.sz(o.Size)))
			consider(MaxBlobSize, id, Nat(res.sz(o.Size)))
		case mrepo.Tree:
			res.Trees = res.Trees.Add(one)
			res.TreeBytes = res.TreeBytes.Add(Nat(res.sz(o.Size)))
			res.TreeEntries = res.TreeEntries.Add(Nat(uint64(len(o.Entries))))
			consider(MaxTreeEntries, id, Nat(uint64(len(o.Entries))))
			e := res.expand(r, id)
			consider(MaxPathDepth, id, e.Depth)
			consider(MaxPathLength, id, e.Length)
			consider(MaxExpTrees, id, e.Dirs)
			consider(MaxExpBlobs, id, e.Files)
			consider(MaxExpBlobSize, id, e.Bytes)
			consider(MaxExpLinks, id, e.Links)
			consider(MaxExpSubs, id, e.Subs)
		case mrepo.Commit:
			res.Commits = res.Commits.Add(one)
			res.CommitBytes = res.CommitBytes.Add(Nat(res.sz(o.Size)))
			consider(MaxCommitSize, id, Nat(res.sz(o.Size)))
			consider(MaxParents, id, Nat(uint64(len(o.Parents))))
			consider(MaxHistoryDepth, id, res.depth(r, id))
		case mrepo.Tag:
			res.Tags = res.Tags.Add(one)
			consider(MaxTagDepth, id, res.tagDepth(r, id))
		}
	}
	// A maximum of zero has witnesses only in the sense that objects of the kind
	// exist; git-sizer cites nobody for a zero (its running max starts at 0 and
	// is updated only by strictly greater values, except for the commit metrics).
	return res
}

func (res *Result) sz(v uint64) uint64 {
	if res.clamp > 0 && v > res.clamp {
		return res.clamp
	}
	return v
}

func (res *Result) depth(r *mrepo.Repo, id mrepo.ID) N {
	if d, ok := res.Depth[id]; ok {
		return d
	}
	// iterative post-order to survive deep chains
	type frame struct {
		id mrepo.ID
		i  int
	}
	st := []frame{{id, 0}}
	for len(st) > 0 {
		f := &st[len(st)-1]
		o := r.Objects[f.id]
		if f.i < len(o.Parents) {
			p := o.Parents[f.i]
			f.i++
			if _, ok := res.Depth[p]; !ok {
				if _, exists := r.Objects[p]; exists {
					st = append(st, frame{p, 0})
				}
			}
			continue
		}
		best := N{}
		for _, p := range o.Parents {
			best = Max(best, res.Depth[p])
		}
		res.Depth[f.id] = best.Add(Nat(1))
		st = st[:len(st)-1]
	}
	return res.Depth[id]
}

func (res *Result) tagDepth(r *mrepo.Repo, id mrepo.ID) N {
	if d, ok := res.TagDepth[id]; ok {
		return d
	}
	o := r.Objects[id]
	d := Nat(1)
	if t, ok := r.Objects[o.Target]; ok && t.Kind == mrepo.Tag {
		d = d.Add(res.tagDepth(r, o.Target))
	}
	res.TagDepth[id] = d
	return d
}

func (res *Result) expand(r *mrepo.Repo, id mrepo.ID) Expansion {
	if e, ok := res.Exp[id]; ok {
		return e
	}
	o := r.Objects[id]
	e := Expansion{Dirs: Nat(1)}
	for _, en := range o.Entries {
		nameLen := Nat(uint64(len(en.Name)))
		switch {
		case en.IsTree():
			c := res.expand(r, en.Child)
			e.Dirs = e.Dirs.Add(c.Dirs)
			e.Files = e.Files.Add(c.Files)
			e.Bytes = e.Bytes.Add(c.Bytes)
			e.Links = e.Links.Add(c.Links)
			e.Subs = e.Subs.Add(c.Subs)
			e.Depth = Max(e.Depth, c.Depth.Add(Nat(1)))
			if c.Length.Inf || c.Length.V > 0 {
				e.Length = Max(e.Length, nameLen.Add(Nat(1)).Add(c.Length))
			} else {
				e.Length = Max(e.Length, nameLen)
			}
		case en.IsGitlink():
			e.Subs = e.Subs.Add(Nat(1))
			e.Depth = Max(e.Depth, Nat(1))
			e.Length = Max(e.Length, nameLen)
		case en.IsSymlink():
			e.Links = e.Links.Add(Nat(1))
			e.Depth = Max(e.Depth, Nat(1))
			e.Length = Max(e.Length, nameLen)
		default:
			e.Files = e.Files.Add(Nat(1))
			if b, ok := r.Objects[en.Child]; ok {
				e.Bytes = e.Bytes.Add(Nat(res.sz(b.Size)))
			}
			e.Depth = Max(e.Depth, Nat(1))
			e.Length = Max(e.Length, nameLen)
		}
	}
	res.Exp[id] = e
	return e
}

// Numbers is the flat list of numeric values in the order and under the JSON v1
// keys git-sizer uses, as the values it must report (saturated at the
// documented capacity).
type Numbers map[string]uint64

func (res *Result) Numbers() Numbers { return res.NumbersCapped(Cap32, Cap64) }

// NumbersCapped is Numbers for counters of the given capacities (the
// width-narrowed builds use 2^8-1 and 2^16-1).
func (res *Result) NumbersCapped(cap32, cap64 uint64) Numbers {
	n := Numbers{
		"unique_commit_count": res.Commits.Rep(cap32),
		"unique_commit_size":  res.CommitBytes.Rep(cap64),
		"unique_tree_count":   res.Trees.Rep(cap32),
		"unique_tree_size":    res.TreeBytes.Rep(cap64),
		"unique_tree_entries": res.TreeEntries.Rep(cap64),
		"unique_blob_count":   res.Blobs.Rep(cap32),
		"unique_blob_size":    res.BlobBytes.Rep(cap64),
		"unique_tag_count":    res.Tags.Rep(cap32),
	}
	for m := Metric(0); m < NMetrics; m++ {
		if m.Is64() {
			n[MetricNames[m]] = res.Max[m].Rep(cap64)
		} else {
			n[MetricNames[m]] = res.Max[m].Rep(cap32)
		}
	}
	return n
}
