package sync

import (
	realsync "sync"
	"unsafe"

	vs "verifsched"
)

// Pool and Map never block and their operations are atomic with respect to one
// another: the real ones serve (a scheduling point before each use is not
// needed for data the property observes only through other synchronisation).
type Pool = realsync.Pool
type Map = realsync.Map

// Cond: Wait releases L, parks until a Signal/Broadcast that came after it
// picked it, and re-acquires L; every operation is a scheduling point.
type Cond struct {
	L       Locker
	waiters []*bool
	real    *realsync.Cond
}

func NewCond(l Locker) *Cond { return &Cond{L: l} }

func (c *Cond) realCond() *realsync.Cond {
	if c.real == nil {
		c.real = realsync.NewCond(c.L)
	}
	return c.real
}

func (c *Cond) Wait() {
	if vs.S == nil {
		c.realCond().Wait()
		return
	}
	woken := false
	c.waiters = append(c.waiters, &woken)
	c.L.Unlock()
	vs.Block("cond-wait", uintptr(unsafe.Pointer(c)), func() bool { return woken }, func() {})
	c.L.Lock()
}

func (c *Cond) Signal() {
	if vs.S == nil {
		c.realCond().Signal()
		return
	}
	vs.Block("cond-signal", uintptr(unsafe.Pointer(c)), func() bool { return true }, func() {
		if len(c.waiters) > 0 {
			*c.waiters[0] = true
			c.waiters = c.waiters[1:]
		}
	})
}

func (c *Cond) Broadcast() {
	if vs.S == nil {
		c.realCond().Broadcast()
		return
	}
	vs.Block("cond-broadcast", uintptr(unsafe.Pointer(c)), func() bool { return true }, func() {
		for _, w := range c.waiters {
			*w = true
		}
		c.waiters = nil
	})
}

// OnceFunc and friends (Go 1.21) in terms of Once.
func OnceFunc(f func()) func() {
	var o Once
	return func() { o.Do(f) }
}
