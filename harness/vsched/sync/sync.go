// Package sync is the scheduler-aware stand-in for the standard sync package
// (the rewritten sources import it under the same name).
package sync

import (
	realsync "sync"
	"unsafe"

	vs "verifsched"
)

type Locker = realsync.Locker

type Mutex struct {
	locked bool
	real   realsync.Mutex
}

func (m *Mutex) Lock() {
	if vs.S == nil {
		m.real.Lock()
		return
	}
	vs.Block("lock", uintptr(unsafe.Pointer(m)), func() bool { return !m.locked }, func() { m.locked = true })
}

func (m *Mutex) Unlock() {
	if vs.S == nil {
		m.real.Unlock()
		return
	}
	if !m.locked {
		panic("sync: unlock of unlocked mutex")
	}
	vs.Block("unlock", uintptr(unsafe.Pointer(m)), func() bool { return true }, func() { m.locked = false })
}

func (m *Mutex) TryLock() bool {
	if vs.S == nil {
		return m.real.TryLock()
	}
	ok := false
	vs.Block("trylock", uintptr(unsafe.Pointer(m)), func() bool { return true }, func() {
		if !m.locked {
			m.locked, ok = true, true
		}
	})
	return ok
}

type RWMutex struct {
	w       bool
	readers int
	real    realsync.RWMutex
}

func (m *RWMutex) Lock() {
	if vs.S == nil {
		m.real.Lock()
		return
	}
	vs.Block("wlock", uintptr(unsafe.Pointer(m)), func() bool { return !m.w && m.readers == 0 }, func() { m.w = true })
}
func (m *RWMutex) Unlock() {
	if vs.S == nil {
		m.real.Unlock()
		return
	}
	vs.Block("wunlock", uintptr(unsafe.Pointer(m)), func() bool { return true }, func() { m.w = false })
}
func (m *RWMutex) RLock() {
	if vs.S == nil {
		m.real.RLock()
		return
	}
	vs.Block("rlock", uintptr(unsafe.Pointer(m)), func() bool { return !m.w }, func() { m.readers++ })
}
func (m *RWMutex) RUnlock() {
	if vs.S == nil {
		m.real.RUnlock()
		return
	}
	vs.Block("runlock", uintptr(unsafe.Pointer(m)), func() bool { return true }, func() { m.readers-- })
}

type Once struct {
	m    Mutex
	done bool
}

func (o *Once) Do(f func()) {
	o.m.Lock()
	defer o.m.Unlock()
	if !o.done {
		defer func() { o.done = true }()
		f()
	}
}

type WaitGroup struct {
	n    int
	real realsync.WaitGroup
}

func (w *WaitGroup) Add(d int) {
	if vs.S == nil {
		w.real.Add(d)
		return
	}
	vs.Block("wg-add", uintptr(unsafe.Pointer(w)), func() bool { return true }, func() { w.n += d })
}
func (w *WaitGroup) Done() { w.Add(-1) }
func (w *WaitGroup) Wait() {
	if vs.S == nil {
		w.real.Wait()
		return
	}
	vs.Block("wg-wait", uintptr(unsafe.Pointer(w)), func() bool { return w.n <= 0 }, func() {})
}
