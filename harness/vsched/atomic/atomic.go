// Package atomic is the scheduler-aware stand-in for sync/atomic: every
// operation is a scheduling point; the access itself is then plain (only one
// logical thread runs at a time).
package atomic

import (
	real "sync/atomic"
	"unsafe"

	vs "verifsched"
)

type Value = real.Value

func y(kind string, p unsafe.Pointer) { vs.Yield(kind, uintptr(p)) }

func LoadInt64(a *int64) int64 {
	if vs.S == nil {
		return real.LoadInt64(a)
	}
	y("atomic-load", unsafe.Pointer(a))
	return *a
}
func StoreInt64(a *int64, v int64) {
	if vs.S == nil {
		real.StoreInt64(a, v)
		return
	}
	y("atomic-store", unsafe.Pointer(a))
	*a = v
}
func AddInt64(a *int64, d int64) int64 {
	if vs.S == nil {
		return real.AddInt64(a, d)
	}
	y("atomic-add", unsafe.Pointer(a))
	*a += d
	return *a
}
func LoadUint32(a *uint32) uint32 {
	if vs.S == nil {
		return real.LoadUint32(a)
	}
	y("atomic-load", unsafe.Pointer(a))
	return *a
}
func StoreUint32(a *uint32, v uint32) {
	if vs.S == nil {
		real.StoreUint32(a, v)
		return
	}
	y("atomic-store", unsafe.Pointer(a))
	*a = v
}
func AddUint32(a *uint32, d uint32) uint32 {
	if vs.S == nil {
		return real.AddUint32(a, d)
	}
	y("atomic-add", unsafe.Pointer(a))
	*a += d
	return *a
}
func LoadInt32(a *int32) int32 {
	if vs.S == nil {
		return real.LoadInt32(a)
	}
	y("atomic-load", unsafe.Pointer(a))
	return *a
}
func StoreInt32(a *int32, v int32) {
	if vs.S == nil {
		real.StoreInt32(a, v)
		return
	}
	y("atomic-store", unsafe.Pointer(a))
	*a = v
}
func AddInt32(a *int32, d int32) int32 {
	if vs.S == nil {
		return real.AddInt32(a, d)
	}
	y("atomic-add", unsafe.Pointer(a))
	*a += d
	return *a
}
func CompareAndSwapInt64(a *int64, old, new int64) bool {
	if vs.S == nil {
		return real.CompareAndSwapInt64(a, old, new)
	}
	y("atomic-cas", unsafe.Pointer(a))
	if *a == old {
		*a = new
		return true
	}
	return false
}
func CompareAndSwapUint32(a *uint32, old, new uint32) bool {
	if vs.S == nil {
		return real.CompareAndSwapUint32(a, old, new)
	}
	y("atomic-cas", unsafe.Pointer(a))
	if *a == old {
		*a = new
		return true
	}
	return false
}
