package atomic

import (
	real "sync/atomic"
	"unsafe"

	vs "verifsched"
)

// 64-bit unsigned and the remaining function forms.

func LoadUint64(a *uint64) uint64 {
	if vs.S == nil {
		return real.LoadUint64(a)
	}
	y("atomic-load", unsafe.Pointer(a))
	return *a
}
func StoreUint64(a *uint64, v uint64) {
	if vs.S == nil {
		real.StoreUint64(a, v)
		return
	}
	y("atomic-store", unsafe.Pointer(a))
	*a = v
}
func AddUint64(a *uint64, d uint64) uint64 {
	if vs.S == nil {
		return real.AddUint64(a, d)
	}
	y("atomic-add", unsafe.Pointer(a))
	*a += d
	return *a
}
func CompareAndSwapUint64(a *uint64, old, new uint64) bool {
	if vs.S == nil {
		return real.CompareAndSwapUint64(a, old, new)
	}
	y("atomic-cas", unsafe.Pointer(a))
	if *a == old {
		*a = new
		return true
	}
	return false
}
func CompareAndSwapInt32(a *int32, old, new int32) bool {
	if vs.S == nil {
		return real.CompareAndSwapInt32(a, old, new)
	}
	y("atomic-cas", unsafe.Pointer(a))
	if *a == old {
		*a = new
		return true
	}
	return false
}
func SwapInt32(a *int32, v int32) int32 {
	if vs.S == nil {
		return real.SwapInt32(a, v)
	}
	y("atomic-swap", unsafe.Pointer(a))
	o := *a
	*a = v
	return o
}
func SwapInt64(a *int64, v int64) int64 {
	if vs.S == nil {
		return real.SwapInt64(a, v)
	}
	y("atomic-swap", unsafe.Pointer(a))
	o := *a
	*a = v
	return o
}
func SwapUint32(a *uint32, v uint32) uint32 {
	if vs.S == nil {
		return real.SwapUint32(a, v)
	}
	y("atomic-swap", unsafe.Pointer(a))
	o := *a
	*a = v
	return o
}
func SwapUint64(a *uint64, v uint64) uint64 {
	if vs.S == nil {
		return real.SwapUint64(a, v)
	}
	y("atomic-swap", unsafe.Pointer(a))
	o := *a
	*a = v
	return o
}

// The typed values of Go 1.19: each method is a scheduling point through the
// function forms above.

type Int32 struct{ v int32 }

func (x *Int32) Load() int32                    { return LoadInt32(&x.v) }
func (x *Int32) Store(v int32)                  { StoreInt32(&x.v, v) }
func (x *Int32) Add(d int32) int32              { return AddInt32(&x.v, d) }
func (x *Int32) Swap(v int32) int32             { return SwapInt32(&x.v, v) }
func (x *Int32) CompareAndSwap(o, n int32) bool { return CompareAndSwapInt32(&x.v, o, n) }

type Int64 struct{ v int64 }

func (x *Int64) Load() int64                    { return LoadInt64(&x.v) }
func (x *Int64) Store(v int64)                  { StoreInt64(&x.v, v) }
func (x *Int64) Add(d int64) int64              { return AddInt64(&x.v, d) }
func (x *Int64) Swap(v int64) int64             { return SwapInt64(&x.v, v) }
func (x *Int64) CompareAndSwap(o, n int64) bool { return CompareAndSwapInt64(&x.v, o, n) }

type Uint32 struct{ v uint32 }

func (x *Uint32) Load() uint32                    { return LoadUint32(&x.v) }
func (x *Uint32) Store(v uint32)                  { StoreUint32(&x.v, v) }
func (x *Uint32) Add(d uint32) uint32             { return AddUint32(&x.v, d) }
func (x *Uint32) Swap(v uint32) uint32            { return SwapUint32(&x.v, v) }
func (x *Uint32) CompareAndSwap(o, n uint32) bool { return CompareAndSwapUint32(&x.v, o, n) }

type Uint64 struct{ v uint64 }

func (x *Uint64) Load() uint64                    { return LoadUint64(&x.v) }
func (x *Uint64) Store(v uint64)                  { StoreUint64(&x.v, v) }
func (x *Uint64) Add(d uint64) uint64             { return AddUint64(&x.v, d) }
func (x *Uint64) Swap(v uint64) uint64            { return SwapUint64(&x.v, v) }
func (x *Uint64) CompareAndSwap(o, n uint64) bool { return CompareAndSwapUint64(&x.v, o, n) }

type Bool struct{ v uint32 }

func b2u(b bool) uint32 {
	if b {
		return 1
	}
	return 0
}
func (x *Bool) Load() bool                    { return LoadUint32(&x.v) != 0 }
func (x *Bool) Store(v bool)                  { StoreUint32(&x.v, b2u(v)) }
func (x *Bool) Swap(v bool) bool              { return SwapUint32(&x.v, b2u(v)) != 0 }
func (x *Bool) CompareAndSwap(o, n bool) bool { return CompareAndSwapUint32(&x.v, b2u(o), b2u(n)) }

// Pointer[T]: under the scheduler a plain field guarded by scheduling points;
// free-running, the real atomic pointer.
type Pointer[T any] struct {
	p    *T
	real real.Pointer[T]
}

func (x *Pointer[T]) Load() *T {
	if vs.S == nil {
		return x.real.Load()
	}
	y("atomic-load", unsafe.Pointer(x))
	return x.p
}
func (x *Pointer[T]) Store(v *T) {
	if vs.S == nil {
		x.real.Store(v)
		return
	}
	y("atomic-store", unsafe.Pointer(x))
	x.p = v
}
func (x *Pointer[T]) Swap(v *T) *T {
	if vs.S == nil {
		return x.real.Swap(v)
	}
	y("atomic-swap", unsafe.Pointer(x))
	o := x.p
	x.p = v
	return o
}
func (x *Pointer[T]) CompareAndSwap(o, n *T) bool {
	if vs.S == nil {
		return x.real.CompareAndSwap(o, n)
	}
	y("atomic-cas", unsafe.Pointer(x))
	if x.p == o {
		x.p = n
		return true
	}
	return false
}
