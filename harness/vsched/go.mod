module verifsched

go 1.21
