package context

import (
	real "context"
	"time"

	vs "verifsched"
)

// Deadlines never expire within an execution's horizon: WithTimeout and
// WithDeadline behave like WithCancel under the scheduler.
func WithTimeout(parent Context, d time.Duration) (Context, CancelFunc) {
	if vs.S == nil {
		return real.WithTimeout(parent, d)
	}
	return WithCancel(parent)
}

func WithDeadline(parent Context, t time.Time) (Context, CancelFunc) {
	if vs.S == nil {
		return real.WithDeadline(parent, t)
	}
	return WithCancel(parent)
}
