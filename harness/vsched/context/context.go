// Package context is the scheduler-aware stand-in for package context:
// cancellation closes a channel the scheduler owns.
package context

import (
	real "context"
	"time"

	vs "verifsched"
)

type Context = real.Context
type CancelFunc = real.CancelFunc

var Canceled = real.Canceled
var DeadlineExceeded = real.DeadlineExceeded

func Background() Context { return real.Background() }
func TODO() Context       { return real.TODO() }

type cancelCtx struct {
	parent Context
	done   chan struct{}
	err    error
}

func (c *cancelCtx) Deadline() (time.Time, bool) { return time.Time{}, false }
func (c *cancelCtx) Done() <-chan struct{}       { return c.done }
func (c *cancelCtx) Err() error                  { return c.err }
func (c *cancelCtx) Value(k any) any             { return c.parent.Value(k) }

// WithCancel: parents are assumed never to be cancelled by anyone else (true
// of git-sizer, whose root context is context.Background()).
func WithCancel(parent Context) (Context, CancelFunc) {
	if vs.S == nil {
		return real.WithCancel(parent)
	}
	c := &cancelCtx{parent: parent, done: make(chan struct{})}
	if pc, ok := parent.(*cancelCtx); ok && pc.err != nil {
		c.err = pc.err
		vs.Close(c.done)
	}
	return c, func() {
		if c.err == nil {
			c.err = Canceled
			vs.Close(c.done)
		}
	}
}

func WithValue(parent Context, k, v any) Context { return real.WithValue(parent, k, v) }
