package time

import (
	real "time"

	vs "verifsched"
)

// AfterFunc: timers never fire within an execution's horizon.
func AfterFunc(d Duration, f func()) *Timer {
	if vs.S == nil {
		return &Timer{real: real.AfterFunc(d, f)}
	}
	return &Timer{C: make(chan Time)}
}

// Tick is NewTicker(d).C.
func Tick(d Duration) <-chan Time { return NewTicker(d).C }

func (t *Timer) Reset(d Duration) bool {
	if t.real != nil {
		return t.real.Reset(d)
	}
	return true
}
