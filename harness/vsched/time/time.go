// Package time is the scheduler-aware stand-in for package time as far as the
// rewritten sources use it: Duration and the constants are the real ones;
// tickers are environment threads with a bounded number of ticks.
package time

import (
	real "time"

	vs "verifsched"
)

type Duration = real.Duration
type Time = real.Time
type Month = real.Month

const (
	Nanosecond  = real.Nanosecond
	Microsecond = real.Microsecond
	Millisecond = real.Millisecond
	Second      = real.Second
	Minute      = real.Minute
	Hour        = real.Hour
)

func Now() Time             { return real.Unix(0, 0) }
func Since(t Time) Duration { return 0 }
func Unix(s, ns int64) Time { return real.Unix(s, ns) }

type Ticker struct {
	C       <-chan Time
	c       chan Time
	stopped bool
	real    *real.Ticker
}

// NewTicker: under the scheduler the ticker is an environment thread that
// offers a bounded number of ticks (capacity-1 channel, tick dropped when full
// or stopped, as the real ticker does).
func NewTicker(d Duration) *Ticker {
	if vs.S == nil {
		rt := real.NewTicker(d)
		return &Ticker{C: rt.C, real: rt}
	}
	c := make(chan Time, 1)
	t := &Ticker{C: c, c: c}
	vs.SpawnTicker(func() bool { return t.stopped }, c)
	return t
}

func (t *Ticker) Stop() {
	if t.real != nil {
		t.real.Stop()
		return
	}
	vs.Block("ticker-stop", vs.Ptr(t.c), func() bool { return true }, func() { t.stopped = true })
}

func (t *Ticker) Reset(d Duration) {
	if t.real != nil {
		t.real.Reset(d)
	}
}

type Timer struct {
	C    <-chan Time
	real *real.Timer
}

func NewTimer(d Duration) *Timer {
	if vs.S == nil {
		rt := real.NewTimer(d)
		return &Timer{C: rt.C, real: rt}
	}
	// timers never fire within an execution's horizon
	return &Timer{C: make(chan Time)}
}

func (t *Timer) Stop() bool {
	if t.real != nil {
		return t.real.Stop()
	}
	return true
}

func After(d Duration) <-chan Time {
	if vs.S == nil {
		return real.After(d)
	}
	return make(chan Time)
}

func Sleep(d Duration) {
	if vs.S == nil {
		real.Sleep(d)
		return
	}
	vs.Yield("sleep", 0)
}
