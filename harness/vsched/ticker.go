package verifsched

import realtime "time"

// SpawnTicker starts the environment thread of one ticker: up to
// TicksPerTicker times it offers a tick (enqueued if the channel has room and
// the ticker is not stopped, dropped otherwise).
func SpawnTicker(stopped func() bool, c chan realtime.Time) {
	s := S
	cs, p := s.chanOf(c)
	n := s.TicksPerTicker
	s.goDaemon("ticker", func() {
		for i := 0; i < n; i++ {
			s.point(&op{kind: "tick", obj: p, enabled: func() bool { return true }, perform: func() {
				if !stopped() && len(cs.q) < cs.cap {
					cs.q = append(cs.q, realtime.Unix(0, 0))
				}
			}})
			if stopped() {
				return
			}
		}
	})
}
