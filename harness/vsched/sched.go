// Package verifsched is a cooperative scheduler for systematic exploration of
// goroutine interleavings (CHESS-style). Exactly one logical thread runs at a
// time; every synchronisation operation of the rewritten code (mutex, atomic,
// channel, select, pipe, ticker, go statement) is a scheduling point at which
// the explorer chooses which enabled thread proceeds. Choices are replayed from
// a prefix and default to "keep running the current thread".
package verifsched

import (
	"fmt"
	"reflect"
	"runtime/debug"
	"sort"
)

// Point is one recorded scheduling decision.
type Point struct {
	Enabled    []int // thread ids in canonical order (running thread first if enabled, then ascending)
	Chosen     int   // index into Enabled
	CurEnabled bool  // the running thread was still enabled (choosing another is a preemption)
	Kind       string
}

type op struct {
	kind    string
	obj     uintptr
	enabled func() bool
	perform func()
	// for rendezvous: set when another thread completed this op on our behalf
	satisfied bool
	// channel bookkeeping
	ch      *chanState
	isRecv  bool
	isSend  bool
	sendVal any
	recvVal any
	recvOK  bool
	sel     *Sel
}

type thread struct {
	id      int
	name    string
	wake    chan bool // true = run, false = abort
	exited  chan struct{}
	done    bool
	daemon  bool
	pending *op
	// suspended: the explorer chose to starve this thread: it runs only when
	// the main thread has finished or nothing else can run
	suspended bool
}

type abortSignal struct{}

// Sched is one execution.
type Sched struct {
	threads []*thread
	cur     *thread
	prefix  []int
	Points  []Point
	Choices []int
	steps   int
	// results
	Deadlock   bool
	Horizon    bool
	Diverged   string
	PanicValue any
	PanicStack string
	finished   chan struct{}
	aborting   bool
	chans      map[uintptr]*chanState
	// Shared: objects on which operations are scheduling points. nil = all.
	Shared map[uintptr]bool
	// Access records which threads touched which object (to learn Shared).
	Access   map[uintptr]map[int]bool
	MaxSteps int
	// TicksPerTicker bounds each ticker's environment thread.
	TicksPerTicker int
	Log            []string
	Trace          bool
	// DelaySpawns adds a "starve this goroutine" choice at every go statement.
	DelaySpawns bool
}

// S is the scheduler of the execution in progress (nil outside executions:
// all shim operations then fall back to plain sequential behaviour).
var S *Sched

func (s *Sched) tracef(format string, a ...any) {
	if s.Trace {
		s.Log = append(s.Log, fmt.Sprintf(format, a...))
	}
}

// Run executes body as thread 0 under the scheduler, replaying prefix.
func Run(body func(), prefix []int, cfg Sched) *Sched {
	s := &cfg
	s.prefix = prefix
	s.finished = make(chan struct{})
	s.chans = map[uintptr]*chanState{}
	s.Access = map[uintptr]map[int]bool{}
	if s.MaxSteps == 0 {
		s.MaxSteps = 200000
	}
	if s.TicksPerTicker == 0 {
		s.TicksPerTicker = 2
	}
	S = s
	t := s.newThread("main", false)
	s.cur = t
	go s.threadMain(t, body)
	t.wake <- true
	<-s.finished
	// abort whatever is still parked, one thread at a time
	s.aborting = true
	for _, th := range s.threads {
		if !th.done {
			th.wake <- false
			<-th.exited
		}
	}
	S = nil
	return s
}

func (s *Sched) newThread(name string, daemon bool) *thread {
	t := &thread{id: len(s.threads), name: name, wake: make(chan bool), daemon: daemon, exited: make(chan struct{})}
	s.threads = append(s.threads, t)
	// a new thread is enabled: its pending op is "start"
	t.pending = &op{kind: "start", enabled: func() bool { return true }, perform: func() {}}
	return t
}

func (s *Sched) threadMain(t *thread, body func()) {
	defer func() {
		r := recover()
		ch := t.exited
		if _, isAbort := r.(abortSignal); r != nil && !isAbort && !s.aborting {
			s.PanicValue = r
			s.PanicStack = string(debug.Stack())
			t.done = true
			s.end()
			close(ch)
			return
		}
		close(ch)
	}()
	if !<-t.wake {
		t.done = true
		panic(abortSignal{})
	}
	t.pending = nil
	body()
	t.done = true
	if s.aborting {
		return
	}
	// hand the processor to somebody else; never returns control here
	s.schedule(t)
}

func (s *Sched) end() {
	select {
	case <-s.finished:
	default:
		close(s.finished)
	}
}

// Go spawns a logical thread.
func Go(f func()) {
	s := S
	if s == nil || s.aborting {
		go f()
		return
	}
	t := s.newThread("go", false)
	// environment choice (costs one deviation): the new goroutine is starved
	// until main has finished or nothing else can run -- the schedule that
	// exposes work handed to a goroutine nobody waits for
	if s.DelaySpawns && Choose(2, "delay-spawn") == 1 {
		t.suspended = true
	}
	go s.threadMain(t, f)
}

// GoDaemon spawns an environment thread (ticker).
func (s *Sched) goDaemon(name string, f func()) {
	t := s.newThread(name, true)
	go s.threadMain(t, f)
}

func (s *Sched) touch(obj uintptr, t *thread) {
	if obj == 0 {
		return
	}
	m := s.Access[obj]
	if m == nil {
		m = map[int]bool{}
		s.Access[obj] = m
	}
	m[t.id] = true
}

// point is called by the running thread before a synchronisation operation.
func (s *Sched) point(o *op) {
	t := s.cur
	if s.aborting {
		panic(abortSignal{})
	}
	s.touch(o.obj, t)
	if s.Shared != nil && o.obj != 0 && !s.Shared[o.obj] && o.enabled() {
		// not (known to be) shared: no scheduling point
		o.perform()
		return
	}
	t.pending = o
	s.schedule(t)
	// we have been chosen: our op was performed by schedule() on our behalf
}

// schedule picks the next thread to run. self is the calling thread (which
// blocks until chosen again, unless it is finished).
func (s *Sched) schedule(self *thread) {
	for {
		s.steps++
		if s.steps > s.MaxSteps {
			s.Horizon = true
			s.end()
			s.park(self)
			return
		}
		var enabled, starved []*thread
		curEnabled := false
		mainDone0 := s.threads[0].done
		for _, th := range s.threads {
			if th.done || th.pending == nil {
				continue
			}
			if th.pending.satisfied || th.pending.enabled() {
				if th.suspended && !mainDone0 && th != self {
					starved = append(starved, th)
					continue
				}
				if th == self && !self.done {
					curEnabled = true
				} else {
					enabled = append(enabled, th)
				}
			}
		}
		if len(enabled) == 0 && !curEnabled && len(starved) > 0 {
			// nothing else can run: the starved threads get their turn
			for _, th := range starved {
				th.suspended = false
			}
			enabled = starved
		}
		sort.Slice(enabled, func(i, j int) bool { return enabled[i].id < enabled[j].id })
		if curEnabled {
			enabled = append([]*thread{self}, enabled...)
		}
		if len(enabled) == 0 {
			// nothing can run: normal end if only daemons / blocked-on-daemon threads remain
			mainDone := s.threads[0].done
			if !mainDone {
				s.Deadlock = true
			}
			s.end()
			s.park(self)
			return
		}
		choice := 0
		if len(enabled) > 1 {
			k := len(s.Points)
			if k < len(s.prefix) {
				choice = s.prefix[k]
				if choice >= len(enabled) {
					s.Diverged = fmt.Sprintf("replay diverged at point %d: choice %d of %d enabled", k, choice, len(enabled))
					s.end()
					s.park(self)
					return
				}
			}
			ids := make([]int, len(enabled))
			for i, th := range enabled {
				ids[i] = th.id
			}
			s.Points = append(s.Points, Point{Enabled: ids, Chosen: choice, CurEnabled: curEnabled, Kind: enabled[choice].pending.kind})
			s.Choices = append(s.Choices, choice)
		}
		next := enabled[choice]
		// perform next's pending operation atomically, now
		o := next.pending
		if !o.satisfied {
			o.perform()
		}
		s.tracef("t%d %s", next.id, o.kind)
		next.pending = nil
		s.cur = next
		if next == self {
			return
		}
		next.wake <- true
		s.park(self)
		return
	}
}

// park blocks the calling thread until it is chosen again (or aborted).
func (s *Sched) park(self *thread) {
	if self.done {
		// finished threads leave through their goroutine's return
		return
	}
	if !<-self.wake {
		panic(abortSignal{})
	}
}

// Choose is an explicit environment choice point with n alternatives (default 0).
func Choose(n int, kind string) int {
	s := S
	if s == nil || n <= 1 {
		return 0
	}
	k := len(s.Points)
	choice := 0
	if k < len(s.prefix) {
		choice = s.prefix[k]
		if choice >= n {
			s.Diverged = fmt.Sprintf("replay diverged at choice point %d", k)
			choice = 0
		}
	}
	ids := make([]int, n)
	for i := range ids {
		ids[i] = -1 - i
	}
	s.Points = append(s.Points, Point{Enabled: ids, Chosen: choice, CurEnabled: true, Kind: kind})
	s.Choices = append(s.Choices, choice)
	return choice
}

// Yield is a plain scheduling point (used by atomics).
func Yield(kind string, obj uintptr) {
	s := S
	if s == nil {
		return
	}
	s.point(&op{kind: kind, obj: obj, enabled: func() bool { return true }, perform: func() {}})
}

// Block performs a blocking operation: it is enabled when cond() holds and act() is executed atomically.
func Block(kind string, obj uintptr, cond func() bool, act func()) {
	s := S
	if s == nil {
		if !cond() {
			panic("verifsched: blocking operation outside an execution would block forever: " + kind)
		}
		act()
		return
	}
	s.point(&op{kind: kind, obj: obj, enabled: cond, perform: act})
}

// Ptr returns the identity of a pointer-like value.
func Ptr(x any) uintptr {
	v := reflect.ValueOf(x)
	switch v.Kind() {
	case reflect.Pointer, reflect.Chan, reflect.Map, reflect.UnsafePointer, reflect.Func, reflect.Slice:
		return v.Pointer()
	}
	return 0
}

// ThreadID returns the id of the running logical thread (-1 outside executions).
func ThreadID() int {
	if S == nil || S.cur == nil {
		return -1
	}
	return S.cur.id
}
