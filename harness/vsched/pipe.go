package verifsched

import (
	"io"
	"unsafe"
)

// pipeState is the scheduler-visible equivalent of io.Pipe: a synchronous
// in-memory pipe; a Write blocks until its data has been consumed.
type pipeState struct {
	buf     []byte
	writing bool
	rerr    error // set by the reader's Close: writes fail with it
	werr    error // set by the writer's Close: reads return it when drained
}

type PipeReader struct{ p *pipeState }
type PipeWriter struct{ p *pipeState }

// Pipe is io.Pipe() under the scheduler (and the real io.Pipe outside executions).
func Pipe() (io.ReadCloser, PipeWriteCloser) {
	if S == nil {
		r, w := io.Pipe()
		return r, w
	}
	p := &pipeState{}
	return &PipeReader{p}, &PipeWriter{p}
}

// PipeWriteCloser is what io.PipeWriter offers to the pipeline code.
type PipeWriteCloser interface {
	io.WriteCloser
	CloseWithError(err error) error
}

func (r *PipeReader) Read(b []byte) (int, error) {
	p := r.p
	if len(b) == 0 {
		return 0, nil
	}
	n := 0
	var err error
	Block("pipe-read", uintptr(unsafe.Pointer(p)), func() bool { return len(p.buf) > 0 || p.werr != nil || p.rerr != nil }, func() {
		switch {
		case p.rerr != nil:
			err = io.ErrClosedPipe
		case len(p.buf) > 0:
			n = copy(b, p.buf)
			p.buf = p.buf[n:]
		default:
			err = p.werr
		}
	})
	return n, err
}

func (r *PipeReader) Close() error { return r.CloseWithError(nil) }

func (r *PipeReader) CloseWithError(err error) error {
	p := r.p
	if err == nil {
		err = io.ErrClosedPipe
	}
	Block("pipe-rclose", uintptr(unsafe.Pointer(p)), func() bool { return true }, func() {
		if p.rerr == nil {
			p.rerr = err
		}
	})
	return nil
}

func (w *PipeWriter) Write(b []byte) (int, error) {
	p := w.p
	if len(b) == 0 {
		return 0, nil
	}
	var err error
	// phase 1: deposit (one writer at a time)
	Block("pipe-write", uintptr(unsafe.Pointer(p)), func() bool { return !p.writing || p.rerr != nil || p.werr != nil }, func() {
		switch {
		case p.werr != nil:
			err = io.ErrClosedPipe
		case p.rerr != nil:
			err = p.rerr
		default:
			p.buf = append([]byte(nil), b...)
			p.writing = true
		}
	})
	if err != nil {
		return 0, err
	}
	// phase 2: wait until consumed (or the reader went away)
	n := len(b)
	Block("pipe-write-wait", uintptr(unsafe.Pointer(p)), func() bool { return len(p.buf) == 0 || p.rerr != nil }, func() {
		if len(p.buf) > 0 {
			n -= len(p.buf)
			p.buf = nil
			err = p.rerr
		}
		p.writing = false
	})
	return n, err
}

func (w *PipeWriter) Close() error { return w.CloseWithError(nil) }

func (w *PipeWriter) CloseWithError(err error) error {
	p := w.p
	if err == nil {
		err = io.EOF
	}
	Block("pipe-wclose", uintptr(unsafe.Pointer(p)), func() bool { return true }, func() {
		if p.werr == nil {
			p.werr = err
		}
	})
	return nil
}
