package verifsched

// Explorer enumerates all schedules with at most Bound deviations from the
// default schedule (default = keep running the current thread; if it cannot
// run, the enabled thread with the lowest id; first ready select case). A
// deviation is any non-default choice at a scheduling or choice point.
type Explorer struct {
	Body  func()
	Cfg   Sched
	Bound int
	// Check is called after every execution; a non-empty string is a violation.
	Check func(x *Sched) string
	// MaxExecutions caps the search (0 = none).
	MaxExecutions int64
	// ShardI/ShardN: this explorer handles the root execution (shard 0 only)
	// and every ShardN-th first-level subtree.
	ShardI, ShardN int
	// Preemption: charge only preemptions (switching away from a thread that
	// could continue) and non-default select cases; switches at blocking points
	// are free (CHESS-style iterative context bounding). Default: every
	// non-default choice costs 1 (deviation bounding).
	Preemption bool
	// Stop is polled between executions.
	Stop func() bool

	Executions int64
	// Deviating: executions whose schedule contains at least one non-default choice
	Deviating   int64
	Transitions int64
	Capped      bool
	Violations  []Found
	// distinct observations (caller fills through Observe)
	Outcomes  map[string]int64
	MaxPoints int
}

type Found struct {
	Msg     string
	Choices []int
}

func (e *Explorer) cost(p Point, choice int) int {
	if choice == 0 {
		return 0
	}
	if e.Preemption && !p.CurEnabled && len(p.Enabled) > 0 && p.Enabled[0] >= 0 {
		return 0 // the running thread cannot continue: any switch is free
	}
	return 1
}

// Run explores; it returns false if it stopped at the cap.
func (e *Explorer) Run() {
	type item struct {
		prefix []int
		used   int
	}
	stack := []item{{nil, 0}}
	for len(stack) > 0 {
		it := stack[len(stack)-1]
		stack = stack[:len(stack)-1]
		if (e.MaxExecutions > 0 && e.Executions >= e.MaxExecutions) || (e.Stop != nil && e.Stop()) {
			e.Capped = true
			return
		}
		x := Run(e.Body, it.prefix, e.Cfg)
		root := len(it.prefix) == 0
		skipCheck := root && e.ShardN > 1 && e.ShardI != 0 // the root execution is checked by shard 0; others only expand it
		if !skipCheck {
			e.checkOne(x)
		}
		e.expand(x, it.prefix, it.used, root, &stackPush{push: func(np []int, used int) { stack = append(stack, item{np, used}) }})
	}
}

type stackPush struct{ push func([]int, int) }

func (e *Explorer) checkOne(x *Sched) {
	{
		e.Executions++
		for _, c := range x.Choices {
			if c != 0 {
				e.Deviating++
				break
			}
		}
		e.Transitions += int64(x.steps)
		if len(x.Points) > e.MaxPoints {
			e.MaxPoints = len(x.Points)
		}
		msg := ""
		switch {
		case x.Diverged != "":
			msg = "HARNESS: " + x.Diverged
		case x.PanicValue != nil:
			msg = "panic: " + sprint(x.PanicValue)
		case x.Deadlock:
			msg = "deadlock: no thread can run but the main thread has not finished"
		case x.Horizon:
			msg = "horizon: execution exceeds the step limit (livelock?)"
		}
		if msg == "" && e.Check != nil {
			msg = e.Check(x)
		}
		if msg != "" {
			if len(e.Violations) < 20 {
				e.Violations = append(e.Violations, Found{msg, append([]int(nil), x.Choices...)})
			}
		}
	}
}

func (e *Explorer) expand(x *Sched, prefix []int, used0 int, root bool, sp *stackPush) {
	{
		// children: deviate at every later point
		u := used0
		childNo := 0
		for i := len(prefix); i < len(x.Points); i++ {
			p := x.Points[i]
			if u+e.cost(p, 1) <= e.Bound {
				for alt := len(p.Enabled) - 1; alt >= 1; alt-- {
					childNo++
					if root && e.ShardN > 1 && childNo%e.ShardN != e.ShardI {
						continue
					}
					np := make([]int, i+1)
					copy(np, x.Choices[:i])
					np[i] = alt
					sp.push(np, u+e.cost(p, alt))
				}
			}
			u += e.cost(p, x.Choices[i])
		}
	}
}

func sprint(v any) string {
	if e, ok := v.(error); ok {
		return e.Error()
	}
	if s, ok := v.(string); ok {
		return s
	}
	return "non-string panic value"
}
