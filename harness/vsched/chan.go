package verifsched

import "reflect"

type chanState struct {
	cap    int
	q      []any
	closed bool
	// keep the real channel alive for the whole execution: its address is
	// the key of this shadow state and must not be reused by the allocator
	keep any
}

func (s *Sched) chanOf(ch any) (*chanState, uintptr) {
	v := reflect.ValueOf(ch)
	p := v.Pointer()
	cs := s.chans[p]
	if cs == nil {
		cs = &chanState{cap: v.Cap(), keep: ch}
		s.chans[p] = cs
	}
	return cs, p
}

func (s *Sched) pendingRecv(cs *chanState, except *thread) *op {
	for _, th := range s.threads {
		if th == except || th.done || th.pending == nil || th.pending.satisfied {
			continue
		}
		o := th.pending
		if o.isRecv && o.ch == cs {
			return o
		}
		if o.sel != nil {
			for i := range o.sel.cases {
				c := &o.sel.cases[i]
				if c.recv && c.cs == cs {
					return o
				}
			}
		}
	}
	return nil
}

func (s *Sched) pendingSend(cs *chanState, except *thread) *op {
	for _, th := range s.threads {
		if th == except || th.done || th.pending == nil || th.pending.satisfied {
			continue
		}
		o := th.pending
		if o.isSend && o.ch == cs {
			return o
		}
	}
	return nil
}

func (s *Sched) sendEnabled(cs *chanState, self *thread) bool {
	return cs.closed || len(cs.q) < cs.cap || (len(cs.q) == 0 && s.pendingRecv(cs, self) != nil)
}

func (s *Sched) recvEnabled(cs *chanState, self *thread) bool {
	return len(cs.q) > 0 || cs.closed || s.pendingSend(cs, self) != nil
}

// doSend performs a send that is known to be enabled.
func (s *Sched) doSend(cs *chanState, v any, self *thread) {
	if cs.closed {
		panic("send on closed channel")
	}
	if len(cs.q) < cs.cap {
		cs.q = append(cs.q, v)
		return
	}
	// rendezvous with a pending receiver
	r := s.pendingRecv(cs, self)
	if r == nil {
		panic("verifsched: send performed while not enabled")
	}
	if r.sel != nil {
		for i := range r.sel.cases {
			c := &r.sel.cases[i]
			if c.recv && c.cs == cs {
				r.sel.chosen = i
				r.sel.val, r.sel.ok = v, true
				break
			}
		}
	} else {
		r.recvVal, r.recvOK = v, true
	}
	r.satisfied = true
}

// doRecv performs a receive that is known to be enabled.
func (s *Sched) doRecv(cs *chanState, self *thread) (any, bool) {
	if len(cs.q) > 0 {
		v := cs.q[0]
		cs.q = cs.q[1:]
		// a sender blocked on a full buffer can now proceed by itself
		return v, true
	}
	if snd := s.pendingSend(cs, self); snd != nil {
		snd.satisfied = true
		return snd.sendVal, true
	}
	if cs.closed {
		return nil, false
	}
	panic("verifsched: receive performed while not enabled")
}

// Send is `ch <- v`.
func Send[T any](ch chan<- T, v T) {
	s := S
	if s == nil {
		ch <- v
		return
	}
	cs, p := s.chanOf(ch)
	self := s.cur
	o := &op{kind: "send", obj: p, ch: cs, isSend: true, sendVal: v}
	o.enabled = func() bool { return s.sendEnabled(cs, self) }
	o.perform = func() { s.doSend(cs, v, self) }
	s.point(o)
}

// Recv2 is `v, ok := <-ch`.
func Recv2[T any](ch <-chan T) (T, bool) {
	s := S
	if s == nil {
		v, ok := <-ch
		return v, ok
	}
	cs, p := s.chanOf(ch)
	self := s.cur
	o := &op{kind: "recv", obj: p, ch: cs, isRecv: true}
	o.enabled = func() bool { return s.recvEnabled(cs, self) }
	o.perform = func() { o.recvVal, o.recvOK = s.doRecv(cs, self) }
	s.point(o)
	var zero T
	if !o.recvOK || o.recvVal == nil {
		if o.recvOK {
			return zero, true
		}
		return zero, false
	}
	return o.recvVal.(T), true
}

// Recv is `<-ch`.
func Recv[T any](ch <-chan T) T {
	v, _ := Recv2(ch)
	return v
}

// Close is `close(ch)`.
func Close[T any](ch chan<- T) {
	s := S
	if s == nil {
		close(ch)
		return
	}
	cs, p := s.chanOf(ch)
	s.point(&op{kind: "close", obj: p, enabled: func() bool { return true }, perform: func() {
		if cs.closed {
			panic("close of closed channel")
		}
		cs.closed = true
	}})
}

// ---------------------------------------------------------------- select

type selCase struct {
	cs   *chanState
	recv bool
	val  any // value to send
}

// Sel is one select statement in progress.
type Sel struct {
	cases      []selCase
	hasDefault bool
	chosen     int
	val        any
	ok         bool
	objs       []uintptr
	// outside executions: a real select through reflection
	real []reflect.SelectCase
	rv   reflect.Value
}

func NewSelect(hasDefault bool) *Sel { return &Sel{hasDefault: hasDefault, chosen: -1} }

func AddRecv[T any](sel *Sel, ch <-chan T) {
	if S == nil {
		sel.real = append(sel.real, reflect.SelectCase{Dir: reflect.SelectRecv, Chan: reflect.ValueOf(ch)})
		return
	}
	if ch == nil {
		sel.cases = append(sel.cases, selCase{cs: nil, recv: true})
		sel.objs = append(sel.objs, 0)
		return
	}
	cs, p := S.chanOf(ch)
	sel.cases = append(sel.cases, selCase{cs: cs, recv: true})
	sel.objs = append(sel.objs, p)
}

func AddSend[T any](sel *Sel, ch chan<- T, v T) {
	if S == nil {
		sel.real = append(sel.real, reflect.SelectCase{Dir: reflect.SelectSend, Chan: reflect.ValueOf(ch), Send: reflect.ValueOf(v)})
		return
	}
	cs, p := S.chanOf(ch)
	sel.cases = append(sel.cases, selCase{cs: cs, recv: false, val: v})
	sel.objs = append(sel.objs, p)
}

// Choose blocks until a case can proceed, performs it, and returns its index
// (-1 = default).
func (sel *Sel) Choose() int {
	s := S
	if s == nil {
		cases := sel.real
		if sel.hasDefault {
			cases = append(append([]reflect.SelectCase(nil), cases...), reflect.SelectCase{Dir: reflect.SelectDefault})
		}
		i, rv, ok := reflect.Select(cases)
		if sel.hasDefault && i == len(cases)-1 {
			return -1
		}
		sel.rv, sel.ok = rv, ok
		return i
	}
	self := s.cur
	ready := func() []int {
		var r []int
		for i := range sel.cases {
			c := &sel.cases[i]
			if c.cs == nil {
				continue
			}
			if c.recv && s.recvEnabled(c.cs, self) || !c.recv && s.sendEnabled(c.cs, self) {
				r = append(r, i)
			}
		}
		return r
	}
	o := &op{kind: "select", sel: sel}
	for _, p := range sel.objs {
		if p != 0 {
			s.touch(p, self)
			if o.obj == 0 {
				o.obj = p
			}
		}
	}
	// a select involving any shared channel is a scheduling point
	if s.Shared != nil {
		for _, p := range sel.objs {
			if s.Shared[p] {
				o.obj = p
			}
		}
	}
	o.enabled = func() bool { return sel.hasDefault || len(ready()) > 0 }
	o.perform = func() {
		r := ready()
		if len(r) == 0 {
			sel.chosen = -1
			return
		}
		// Go picks among ready cases at random: an explicit choice point
		k := 0
		if len(r) > 1 {
			k = Choose(len(r), "select-case")
		}
		i := r[k]
		c := &sel.cases[i]
		sel.chosen = i
		if c.recv {
			sel.val, sel.ok = s.doRecv(c.cs, self)
		} else {
			s.doSend(c.cs, c.val, self)
		}
	}
	s.point(o)
	return sel.chosen
}

// TakeRecv2 returns the value received by the chosen case, typed by its channel.
func TakeRecv2[T any](sel *Sel, ch <-chan T) (T, bool) {
	var zero T
	if sel.real != nil {
		if !sel.ok {
			return zero, false
		}
		return sel.rv.Interface().(T), true
	}
	if !sel.ok {
		return zero, false
	}
	if sel.val == nil {
		return zero, true
	}
	return sel.val.(T), true
}

func TakeRecv[T any](sel *Sel, ch <-chan T) T {
	v, _ := TakeRecv2(sel, ch)
	return v
}
