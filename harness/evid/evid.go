// Package evid writes /verif/evidence/<id>.json.
package evid

import (
	"encoding/json"
	"os"
	"path/filepath"
	"strconv"
)

type File struct {
	PropertyID  string         `json:"property_id"`
	Tier        string         `json:"tier"`
	Seed        int            `json:"seed"`
	Level       string         `json:"level"`
	Coverage    map[string]any `json:"coverage"`
	Assumptions []string       `json:"assumptions,omitempty"`
	WallS       float64        `json:"wall_s"`
	Violations  int            `json:"violations"`
}

func Seed() int {
	n, _ := strconv.Atoi(os.Getenv("VERIF_SEED"))
	return n
}

func Write(root string, f File) error {
	f.Seed = Seed()
	dir := filepath.Join(root, "evidence")
	os.MkdirAll(dir, 0o755)
	b, err := json.MarshalIndent(f, "", " ")
	if err != nil {
		return err
	}
	return os.WriteFile(filepath.Join(dir, f.PropertyID+".json"), append(b, '\n'), 0o644)
}
