// Package refmodel is the independent reference model of reference selection
// (C06) and refgroup tallies (C07), written from the property statements and
// git-sizer's usage text. It does not use Go's regexp package.
package refmodel

import (
	"fmt"
	"sort"
	"strings"
)

// ---------------------------------------------------------------- regex (full match)

type node struct {
	kind byte // 'c' char, '.' any, 'd' digit, '|' alt, '&' concat, '*' star, '+' plus, '?' opt, '^', '$', 'e' empty
	ch   byte
	kids []*node
}

type parser struct {
	s string
	i int
}

// ParseRegex parses the small grammar used by the alphabets: literals, '.',
// '*', '+', '?', '|', groups (also non-capturing "(?:"), '\d', escaped
// literals, '^' and '$'.
func ParseRegex(s string) (*node, error) {
	p := &parser{s: s}
	n, err := p.alt()
	if err != nil {
		return nil, err
	}
	if p.i != len(s) {
		return nil, fmt.Errorf("unexpected %q at %d", s[p.i], p.i)
	}
	return n, nil
}

func (p *parser) alt() (*node, error) {
	first, err := p.concat()
	if err != nil {
		return nil, err
	}
	kids := []*node{first}
	for p.i < len(p.s) && p.s[p.i] == '|' {
		p.i++
		n, err := p.concat()
		if err != nil {
			return nil, err
		}
		kids = append(kids, n)
	}
	if len(kids) == 1 {
		return first, nil
	}
	return &node{kind: '|', kids: kids}, nil
}

func (p *parser) concat() (*node, error) {
	var kids []*node
	for p.i < len(p.s) && p.s[p.i] != '|' && p.s[p.i] != ')' {
		a, err := p.atom()
		if err != nil {
			return nil, err
		}
		for p.i < len(p.s) && (p.s[p.i] == '*' || p.s[p.i] == '+' || p.s[p.i] == '?') {
			a = &node{kind: p.s[p.i], kids: []*node{a}}
			p.i++
			// a '?' straight after a quantifier makes it lazy: which match is
			// preferred changes, whether the whole string matches does not
			if p.i < len(p.s) && p.s[p.i] == '?' {
				p.i++
			}
		}
		kids = append(kids, a)
	}
	if len(kids) == 0 {
		return &node{kind: 'e'}, nil
	}
	if len(kids) == 1 {
		return kids[0], nil
	}
	return &node{kind: '&', kids: kids}, nil
}

func (p *parser) atom() (*node, error) {
	c := p.s[p.i]
	switch c {
	case '(':
		p.i++
		if strings.HasPrefix(p.s[p.i:], "?:") {
			p.i += 2
		}
		n, err := p.alt()
		if err != nil {
			return nil, err
		}
		if p.i >= len(p.s) || p.s[p.i] != ')' {
			return nil, fmt.Errorf("missing )")
		}
		p.i++
		return n, nil
	case '.':
		p.i++
		return &node{kind: '.'}, nil
	case '^', '$':
		p.i++
		return &node{kind: c}, nil
	case '\\':
		if p.i+1 >= len(p.s) {
			return nil, fmt.Errorf("trailing backslash")
		}
		e := p.s[p.i+1]
		p.i += 2
		if e == 'd' {
			return &node{kind: 'd'}, nil
		}
		if (e >= 'a' && e <= 'z') || (e >= 'A' && e <= 'Z') || (e >= '0' && e <= '9') {
			return nil, fmt.Errorf("unsupported escape \\%c", e)
		}
		return &node{kind: 'c', ch: e}, nil
	case '*', '+', '?', '[', ']', '{', '}':
		return nil, fmt.Errorf("unsupported %q", c)
	}
	p.i++
	return &node{kind: 'c', ch: c}, nil
}

// ends returns the set of positions at which a match of n starting at any
// position of starts can end.
func ends(n *node, s string, starts map[int]bool) map[int]bool {
	out := map[int]bool{}
	switch n.kind {
	case 'e':
		for p := range starts {
			out[p] = true
		}
	case 'c':
		for p := range starts {
			if p < len(s) && s[p] == n.ch {
				out[p+1] = true
			}
		}
	case '.':
		for p := range starts {
			if p < len(s) && s[p] != '\n' {
				out[p+1] = true
			}
		}
	case 'd':
		for p := range starts {
			if p < len(s) && s[p] >= '0' && s[p] <= '9' {
				out[p+1] = true
			}
		}
	case '^':
		if starts[0] {
			out[0] = true
		}
	case '$':
		if starts[len(s)] {
			out[len(s)] = true
		}
	case '|':
		for _, k := range n.kids {
			for p := range ends(k, s, starts) {
				out[p] = true
			}
		}
	case '&':
		cur := starts
		for _, k := range n.kids {
			cur = ends(k, s, cur)
			if len(cur) == 0 {
				break
			}
		}
		return cur
	case '?':
		for p := range starts {
			out[p] = true
		}
		for p := range ends(n.kids[0], s, starts) {
			out[p] = true
		}
	case '*', '+':
		if n.kind == '*' {
			for p := range starts {
				out[p] = true
			}
		}
		frontier := starts
		for len(frontier) > 0 {
			next := ends(n.kids[0], s, frontier)
			frontier = map[int]bool{}
			for p := range next {
				if !out[p] {
					out[p] = true
					frontier[p] = true
				}
			}
		}
	}
	return out
}

// FullMatch tells whether the whole of s matches the pattern.
func FullMatch(pattern, s string) (bool, error) {
	n, err := ParseRegex(pattern)
	if err != nil {
		return false, err
	}
	return ends(n, s, map[int]bool{0: true})[len(s)], nil
}

// ---------------------------------------------------------------- matchers

// Rule is one include/exclude rule.
type Rule struct {
	Include bool
	Kind    byte   // 'p' prefix, 'r' regexp, 'g' refgroup
	Pattern string // prefix, regexp, or group symbol
}

func PrefixMatch(prefix, ref string) bool {
	if prefix == "" {
		return true
	}
	if strings.HasSuffix(prefix, "/") {
		return strings.HasPrefix(ref, prefix)
	}
	return ref == prefix || strings.HasPrefix(ref, prefix+"/")
}

// Group is one refgroup of the model.
type Group struct {
	Symbol string
	Name   string
	Rules  []Rule // own rules (nil = rule-less)
	Kids   []*Group
	Parent *Group
}

// Forest is the set of all groups keyed by symbol; Top is the list of
// top-level groups in definition order.
type Forest struct {
	BySymbol map[string]*Group
	Top      []*Group
}

func (f *Forest) get(symbol string) *Group {
	if g, ok := f.BySymbol[symbol]; ok {
		return g
	}
	g := &Group{Symbol: symbol}
	f.BySymbol[symbol] = g
	if i := strings.LastIndexByte(symbol, '.'); i >= 0 {
		p := f.get(symbol[:i])
		g.Parent = p
		p.Kids = append(p.Kids, g)
	} else {
		f.Top = append(f.Top, g)
	}
	return g
}

// ConfigEntry is a (key, value) pair as `git config --list` reports it, key
// already lower-cased in section and variable name.
type ConfigEntry struct{ Key, Value string }

// NewForest builds the built-in groups and applies the refgroup.* entries.
func NewForest(entries []ConfigEntry) (*Forest, error) {
	f := &Forest{BySymbol: map[string]*Group{}}
	builtin := func(sym, name string, r Rule) {
		g := f.get(sym)
		g.Name = name
		g.Rules = []Rule{r}
	}
	builtin("branches", "Branches", Rule{true, 'p', "refs/heads/"})
	builtin("tags", "Tags", Rule{true, 'p', "refs/tags/"})
	builtin("remotes", "Remote-tracking refs", Rule{true, 'p', "refs/remotes/"})
	builtin("pulls", "Pull request refs", Rule{true, 'p', "refs/pull/"})
	builtin("changes", "Changeset refs", Rule{true, 'r', `refs/changes/\d\d/\d+/\d+`})
	builtin("notes", "Git notes", Rule{true, 'p', "refs/notes/"})
	builtin("stash", "Git stash", Rule{true, 'r', `refs/stash`})
	for _, e := range entries {
		if !strings.HasPrefix(e.Key, "refgroup.") {
			continue
		}
		rest := e.Key[len("refgroup."):]
		i := strings.LastIndexByte(rest, '.')
		if i < 0 {
			continue
		}
		sym, field := rest[:i], rest[i+1:]
		if sym == "" {
			continue
		}
		g := f.get(sym)
		switch field {
		case "name":
			g.Name = e.Value
		case "include":
			g.Rules = append(g.Rules, Rule{true, 'p', e.Value})
		case "exclude":
			g.Rules = append(g.Rules, Rule{false, 'p', e.Value})
		case "includeregexp":
			if _, err := ParseRegex(e.Value); err != nil {
				return nil, err
			}
			g.Rules = append(g.Rules, Rule{true, 'r', e.Value})
		case "excluderegexp":
			if _, err := ParseRegex(e.Value); err != nil {
				return nil, err
			}
			g.Rules = append(g.Rules, Rule{false, 'r', e.Value})
		}
	}
	return f, nil
}

// Undefined returns the symbol of a group that has neither rules nor
// subgroups (an invalid definition), or "".
func (f *Forest) Undefined() string {
	var syms []string
	for s := range f.BySymbol {
		syms = append(syms, s)
	}
	sort.Strings(syms)
	for _, s := range syms {
		g := f.BySymbol[s]
		if len(g.Rules) == 0 && len(g.Kids) == 0 {
			return s
		}
	}
	return ""
}

func (f *Forest) ruleMatch(r Rule, ref string) bool {
	switch r.Kind {
	case 'p':
		return PrefixMatch(r.Pattern, ref)
	case 'r':
		ok, _ := FullMatch(r.Pattern, ref)
		return ok
	case 'g':
		g := f.BySymbol[r.Pattern]
		return g != nil && f.Member(g, ref)
	}
	return false
}

// Fold applies last-matching-rule semantics to a rule list: polarity of the
// last rule that matches, else the opposite of the first rule's polarity.
func (f *Forest) Fold(rules []Rule, ref string) bool {
	res := !rules[0].Include
	for _, r := range rules {
		if f.ruleMatch(r, ref) {
			res = r.Include
		}
	}
	return res
}

// own: does ref satisfy the group's own rules (a rule-less group being the
// union of its subgroups)?
func (f *Forest) own(g *Group, ref string) bool {
	if len(g.Rules) > 0 {
		return f.Fold(g.Rules, ref)
	}
	for _, k := range g.Kids {
		if f.own(k, ref) {
			return true
		}
	}
	return false
}

// Member: own rules and all ancestors' rules.
func (f *Forest) Member(g *Group, ref string) bool {
	for a := g.Parent; a != nil; a = a.Parent {
		if len(a.Rules) > 0 && !f.Fold(a.Rules, ref) {
			return false
		}
	}
	return f.own(g, ref)
}

// Selected decides whether ref is traversed, given the command-line rules (in
// order) and whether ROOT arguments are present.
func (f *Forest) Selected(rules []Rule, rootPresent bool, ref string) bool {
	if len(rules) == 0 {
		return !rootPresent
	}
	return f.Fold(rules, ref)
}

// Tally returns the symbols under which ref is counted: the user/built-in
// groups it is a tallied member of, and separately the built-in buckets
// ("ignored", "other", "<group>.other").
func (f *Forest) Tally(rules []Rule, rootPresent bool, ref string) (groups, buckets []string) {
	if !f.Selected(rules, rootPresent, ref) {
		return nil, []string{"ignored"}
	}
	groups = []string{""}
	any := false
	for _, g := range f.Top {
		gs, bs := f.tallyGroup(g, ref)
		if len(gs) > 0 {
			any = true
		}
		groups = append(groups, gs...)
		buckets = append(buckets, bs...)
	}
	if !any && len(f.Top) > 0 {
		buckets = append(buckets, "other")
	}
	return groups, buckets
}

func (f *Forest) tallyGroup(g *Group, ref string) (groups, buckets []string) {
	if len(g.Rules) > 0 {
		if !f.Fold(g.Rules, ref) {
			return nil, nil
		}
		groups = []string{g.Symbol}
		any := false
		for _, k := range g.Kids {
			gs, bs := f.tallyGroup(k, ref)
			if len(gs) > 0 {
				any = true
			}
			groups = append(groups, gs...)
			buckets = append(buckets, bs...)
		}
		if len(g.Kids) > 0 && !any {
			buckets = append(buckets, g.Symbol+".other")
		}
		return groups, buckets
	}
	for _, k := range g.Kids {
		gs, bs := f.tallyGroup(k, ref)
		groups = append(groups, gs...)
		buckets = append(buckets, bs...)
	}
	if len(groups) == 0 {
		return nil, nil
	}
	return append([]string{g.Symbol}, groups...), buckets
}
