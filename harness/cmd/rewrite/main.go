// rewrite produces, from a Go source file, a copy in which every
// synchronisation construct is routed through the verifsched scheduler:
//
//	imports sync, sync/atomic, time, context  -> verifsched/{sync,atomic,time,context}
//	go f(...)            -> verifsched.Go(func() { f(...) })
//	ch <- v              -> verifsched.Send(ch, v)
//	<-ch                 -> verifsched.Recv(ch)
//	v, ok := <-ch        -> v, ok := verifsched.Recv2(ch)
//	close(ch)            -> verifsched.Close(ch)
//	select { ... }       -> verifsched.NewSelect/AddRecv/AddSend/Choose + switch
//	for v := range ch    -> loop over verifsched.Recv2 (only with -rangechan)
//	io.Pipe()            -> verifsched.Pipe()
//
// The rewrite is purely syntactic (no types are changed): channel values stay
// real Go channels, whose state the scheduler shadows by identity.
//
// usage: rewrite [-pkg name] in.go out.go
package main

import (
	"bytes"
	"flag"
	"fmt"
	"go/ast"
	"go/format"
	"go/parser"
	"go/token"
	"os"
	"strconv"
)

var importMap = map[string]string{
	"sync":        "verifsched/sync",
	"sync/atomic": "verifsched/atomic",
	"time":        "verifsched/time",
	"context":     "verifsched/context",
}

func vsCall(name string, args ...ast.Expr) *ast.CallExpr {
	return &ast.CallExpr{Fun: &ast.SelectorExpr{X: ast.NewIdent("verifsched"), Sel: ast.NewIdent(name)}, Args: args}
}

var selCounter int

type rewriter struct {
	fset *token.FileSet
	used bool
}

func (r *rewriter) expr(e ast.Expr) ast.Expr {
	if e == nil {
		return nil
	}
	switch x := e.(type) {
	case *ast.UnaryExpr:
		x.X = r.expr(x.X)
		if x.Op == token.ARROW {
			r.used = true
			return vsCall("Recv", x.X)
		}
		return x
	case *ast.CallExpr:
		x.Fun = r.expr(x.Fun)
		for i := range x.Args {
			x.Args[i] = r.expr(x.Args[i])
		}
		if id, ok := x.Fun.(*ast.Ident); ok && id.Name == "close" && len(x.Args) == 1 {
			r.used = true
			return vsCall("Close", x.Args[0])
		}
		if se, ok := x.Fun.(*ast.SelectorExpr); ok {
			if id, ok := se.X.(*ast.Ident); ok && id.Name == "io" && se.Sel.Name == "Pipe" && len(x.Args) == 0 {
				r.used = true
				return vsCall("Pipe")
			}
		}
		return x
	case *ast.FuncLit:
		r.block(x.Body)
		return x
	case *ast.BinaryExpr:
		x.X, x.Y = r.expr(x.X), r.expr(x.Y)
		return x
	case *ast.ParenExpr:
		x.X = r.expr(x.X)
		return x
	case *ast.SelectorExpr:
		x.X = r.expr(x.X)
		return x
	case *ast.IndexExpr:
		x.X, x.Index = r.expr(x.X), r.expr(x.Index)
		return x
	case *ast.SliceExpr:
		x.X, x.Low, x.High, x.Max = r.expr(x.X), r.expr(x.Low), r.expr(x.High), r.expr(x.Max)
		return x
	case *ast.StarExpr:
		x.X = r.expr(x.X)
		return x
	case *ast.TypeAssertExpr:
		x.X = r.expr(x.X)
		return x
	case *ast.CompositeLit:
		for i := range x.Elts {
			x.Elts[i] = r.expr(x.Elts[i])
		}
		return x
	case *ast.KeyValueExpr:
		x.Value = r.expr(x.Value)
		return x
	}
	return e
}

func (r *rewriter) block(b *ast.BlockStmt) {
	if b == nil {
		return
	}
	for i := range b.List {
		b.List[i] = r.stmt(b.List[i])
	}
}

func (r *rewriter) stmt(s ast.Stmt) ast.Stmt {
	switch x := s.(type) {
	case nil:
		return nil
	case *ast.BlockStmt:
		r.block(x)
	case *ast.ExprStmt:
		x.X = r.expr(x.X)
	case *ast.SendStmt:
		r.used = true
		return &ast.ExprStmt{X: vsCall("Send", r.expr(x.Chan), r.expr(x.Value))}
	case *ast.GoStmt:
		r.used = true
		call := r.expr(x.Call).(*ast.CallExpr)
		if len(call.Args) != 0 {
			fmt.Fprintf(os.Stderr, "rewrite: go statement with arguments at %s is not supported\n", r.fset.Position(x.Pos()))
			os.Exit(3)
		}
		var body *ast.BlockStmt
		if fl, ok := call.Fun.(*ast.FuncLit); ok {
			body = fl.Body
		} else {
			body = &ast.BlockStmt{List: []ast.Stmt{&ast.ExprStmt{X: call}}}
		}
		return &ast.ExprStmt{X: vsCall("Go", &ast.FuncLit{Type: &ast.FuncType{Params: &ast.FieldList{}}, Body: body})}
	case *ast.AssignStmt:
		// v, ok := <-ch
		if len(x.Lhs) == 2 && len(x.Rhs) == 1 {
			if u, ok := x.Rhs[0].(*ast.UnaryExpr); ok && u.Op == token.ARROW {
				r.used = true
				x.Rhs[0] = vsCall("Recv2", r.expr(u.X))
				return x
			}
		}
		for i := range x.Rhs {
			x.Rhs[i] = r.expr(x.Rhs[i])
		}
		for i := range x.Lhs {
			x.Lhs[i] = r.expr(x.Lhs[i])
		}
	case *ast.DeclStmt:
		if gd, ok := x.Decl.(*ast.GenDecl); ok {
			for _, sp := range gd.Specs {
				if vs, ok := sp.(*ast.ValueSpec); ok {
					for i := range vs.Values {
						vs.Values[i] = r.expr(vs.Values[i])
					}
				}
			}
		}
	case *ast.ReturnStmt:
		for i := range x.Results {
			x.Results[i] = r.expr(x.Results[i])
		}
	case *ast.IfStmt:
		x.Init = r.stmt(x.Init)
		x.Cond = r.expr(x.Cond)
		r.block(x.Body)
		x.Else = r.stmt(x.Else)
	case *ast.ForStmt:
		x.Init = r.stmt(x.Init)
		x.Cond = r.expr(x.Cond)
		x.Post = r.stmt(x.Post)
		r.block(x.Body)
	case *ast.RangeStmt:
		x.X = r.expr(x.X)
		r.block(x.Body)
	case *ast.SwitchStmt:
		x.Init = r.stmt(x.Init)
		x.Tag = r.expr(x.Tag)
		r.block(x.Body)
	case *ast.TypeSwitchStmt:
		x.Init = r.stmt(x.Init)
		r.block(x.Body)
	case *ast.CaseClause:
		for i := range x.List {
			x.List[i] = r.expr(x.List[i])
		}
		for i := range x.Body {
			x.Body[i] = r.stmt(x.Body[i])
		}
	case *ast.DeferStmt:
		x.Call = r.expr(x.Call).(*ast.CallExpr)
	case *ast.LabeledStmt:
		x.Stmt = r.stmt(x.Stmt)
	case *ast.IncDecStmt:
		x.X = r.expr(x.X)
	case *ast.SelectStmt:
		return r.selectStmt(x)
	}
	return s
}

func (r *rewriter) selectStmt(x *ast.SelectStmt) ast.Stmt {
	r.used = true
	selCounter++
	sel := ast.NewIdent("__sel" + strconv.Itoa(selCounter))
	hasDefault := false
	for _, c := range x.Body.List {
		if c.(*ast.CommClause).Comm == nil {
			hasDefault = true
		}
	}
	def := "false"
	if hasDefault {
		def = "true"
	}
	out := &ast.BlockStmt{}
	out.List = append(out.List, &ast.AssignStmt{Lhs: []ast.Expr{sel}, Tok: token.DEFINE, Rhs: []ast.Expr{vsCall("NewSelect", ast.NewIdent(def))}})
	sw := &ast.SwitchStmt{Tag: &ast.CallExpr{Fun: &ast.SelectorExpr{X: sel, Sel: ast.NewIdent("Choose")}}, Body: &ast.BlockStmt{}}
	idx := 0
	for _, c := range x.Body.List {
		cc := c.(*ast.CommClause)
		var body []ast.Stmt
		for _, b := range cc.Body {
			body = append(body, r.stmt(b))
		}
		if cc.Comm == nil {
			sw.Body.List = append(sw.Body.List, &ast.CaseClause{List: nil, Body: body})
			continue
		}
		caseExpr := []ast.Expr{&ast.BasicLit{Kind: token.INT, Value: strconv.Itoa(idx)}}
		idx++
		switch comm := cc.Comm.(type) {
		case *ast.SendStmt:
			out.List = append(out.List, &ast.ExprStmt{X: vsCall("AddSend", sel, r.expr(comm.Chan), r.expr(comm.Value))})
			sw.Body.List = append(sw.Body.List, &ast.CaseClause{List: caseExpr, Body: body})
		case *ast.ExprStmt: // case <-ch:
			u := comm.X.(*ast.UnaryExpr)
			ch := r.expr(u.X)
			out.List = append(out.List, &ast.ExprStmt{X: vsCall("AddRecv", sel, ch)})
			sw.Body.List = append(sw.Body.List, &ast.CaseClause{List: caseExpr, Body: body})
		case *ast.AssignStmt: // case v := <-ch / v, ok := <-ch / v = <-ch
			u := comm.Rhs[0].(*ast.UnaryExpr)
			ch := r.expr(u.X)
			out.List = append(out.List, &ast.ExprStmt{X: vsCall("AddRecv", sel, ch)})
			fn := "TakeRecv"
			if len(comm.Lhs) == 2 {
				fn = "TakeRecv2"
			}
			take := &ast.AssignStmt{Lhs: comm.Lhs, Tok: comm.Tok, Rhs: []ast.Expr{vsCall(fn, sel, ch)}}
			nb := append([]ast.Stmt{take}, body...)
			// silence "declared and not used" for v, ok that the body ignores
			if comm.Tok == token.DEFINE {
				for _, l := range comm.Lhs {
					if id, ok := l.(*ast.Ident); ok && id.Name != "_" {
						nb = append([]ast.Stmt{nb[0], &ast.AssignStmt{Lhs: []ast.Expr{ast.NewIdent("_")}, Tok: token.ASSIGN, Rhs: []ast.Expr{ast.NewIdent(id.Name)}}}, nb[1:]...)
					}
				}
			}
			sw.Body.List = append(sw.Body.List, &ast.CaseClause{List: caseExpr, Body: nb})
		}
	}
	if !hasDefault {
		// keeps the statement terminating when every case returns
		sw.Body.List = append(sw.Body.List, &ast.CaseClause{List: nil, Body: []ast.Stmt{
			&ast.ExprStmt{X: &ast.CallExpr{Fun: ast.NewIdent("panic"), Args: []ast.Expr{&ast.BasicLit{Kind: token.STRING, Value: strconv.Quote("verifsched: select chose no case")}}}}}})
	}
	out.List = append(out.List, sw)
	return out
}

func main() {
	pkg := flag.String("pkg", "", "rename the package")
	flag.Parse()
	if flag.NArg() != 2 {
		fmt.Fprintln(os.Stderr, "usage: rewrite [-pkg name] in.go out.go")
		os.Exit(2)
	}
	fset := token.NewFileSet()
	f, err := parser.ParseFile(fset, flag.Arg(0), nil, parser.ParseComments)
	if err != nil {
		fmt.Fprintln(os.Stderr, err)
		os.Exit(2)
	}
	if *pkg != "" {
		f.Name.Name = *pkg
	}
	r := &rewriter{fset: fset}
	for _, d := range f.Decls {
		switch x := d.(type) {
		case *ast.FuncDecl:
			r.block(x.Body)
		case *ast.GenDecl:
			for _, sp := range x.Specs {
				if vs, ok := sp.(*ast.ValueSpec); ok {
					for i := range vs.Values {
						vs.Values[i] = r.expr(vs.Values[i])
					}
				}
			}
		}
	}
	// imports
	ioUsed := false
	ast.Inspect(f, func(n ast.Node) bool {
		if se, ok := n.(*ast.SelectorExpr); ok {
			if id, ok := se.X.(*ast.Ident); ok && id.Name == "io" {
				ioUsed = true
			}
		}
		return true
	})
	for _, d := range f.Decls {
		gd, ok := d.(*ast.GenDecl)
		if !ok || gd.Tok != token.IMPORT {
			continue
		}
		var specs []ast.Spec
		for _, sp := range gd.Specs {
			is := sp.(*ast.ImportSpec)
			p, _ := strconv.Unquote(is.Path.Value)
			if np, ok := importMap[p]; ok {
				is.Path.Value = strconv.Quote(np)
			}
			if p == "io" && !ioUsed {
				continue
			}
			specs = append(specs, is)
		}
		if r.used {
			specs = append(specs, &ast.ImportSpec{Path: &ast.BasicLit{Kind: token.STRING, Value: strconv.Quote("verifsched")}})
			r.used = false
		}
		gd.Specs = specs
		if len(specs) > 1 && !gd.Lparen.IsValid() {
			gd.Lparen = gd.Pos()
			gd.Rparen = gd.End()
		}
	}
	var buf bytes.Buffer
	buf.WriteString("//go:build go1.18\n\n// Code generated by /verif/harness/cmd/rewrite from " + flag.Arg(0) + "; DO NOT EDIT.\n\n")
	// drop comments (their positions no longer match) but keep the code exact
	f.Comments = nil
	f.Doc = nil
	if err := format.Node(&buf, fset, f); err != nil {
		fmt.Fprintln(os.Stderr, err)
		os.Exit(2)
	}
	if err := os.WriteFile(flag.Arg(1), buf.Bytes(), 0o644); err != nil {
		fmt.Fprintln(os.Stderr, err)
		os.Exit(2)
	}
}
