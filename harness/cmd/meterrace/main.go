// meterrace drives the real progress meter free-running under the race
// detector (built with -race): the worker increments as fast as it can while
// the meter's own ticker goroutine reports every few microseconds, over
// several phases. The race detector's report (exit status 66) is the
// observation; silence proves nothing (sampling, auxiliary to C18's schedule
// enumeration, which cannot see unsynchronised accesses).
package main

import (
	"fmt"
	"os"
	"strconv"
	"sync"
	"time"

	"github.com/github/git-sizer/meter"
)

type sink struct {
	mu sync.Mutex
	n  int
}

func (s *sink) Write(p []byte) (int, error) {
	s.mu.Lock()
	s.n += len(p)
	s.mu.Unlock()
	return len(p), nil
}

func main() {
	incs := 200000
	if len(os.Args) > 1 {
		incs, _ = strconv.Atoi(os.Args[1])
	}
	w := &sink{}
	for _, period := range []time.Duration{20 * time.Microsecond, time.Millisecond} {
		p := meter.NewProgressMeter(w, period)
		for ph := 0; ph < 3; ph++ {
			p.Start(fmt.Sprintf("phase %d: %%d", ph))
			for i := 0; i < incs; i++ {
				if i%7 == 0 {
					p.Add(2)
				} else {
					p.Inc()
				}
			}
			p.Done()
		}
	}
	fmt.Println("frames bytes:", w.n)
}
