// vcheck is the harness executable: `vcheck <PROPERTY> <quick|thorough>` runs a
// check (parent mode, spawning sharded workers); `vcheck worker ...` is the
// worker mode; `vcheck replay <file>` re-runs one recorded case.
package main

import (
	"encoding/json"
	"errors"
	"fmt"
	"os"
	"sort"
	"strconv"
	"strings"
	"syscall"
	"time"

	"verif/checks"
	"verif/evid"
	"verif/explore"
)

const root = "/verif"

func main() {
	if len(os.Args) < 2 {
		fmt.Fprintln(os.Stderr, "usage: vcheck <PROPERTY> <quick|thorough> | worker ... | replay <file>")
		os.Exit(2)
	}
	switch os.Args[1] {
	case "worker":
		// worker <prop> <tier> <i> <n> <only> <marker> <budget_ms>
		prop, tier := os.Args[2], os.Args[3]
		i, _ := strconv.Atoi(os.Args[4])
		n, _ := strconv.Atoi(os.Args[5])
		only, _ := strconv.ParseInt(os.Args[6], 10, 64)
		marker := os.Args[7]
		ms, _ := strconv.ParseInt(os.Args[8], 10, 64)
		ck, ok := checks.Registry[prop]
		if !ok {
			fmt.Fprintln(os.Stderr, "unknown property", prop)
			os.Exit(2)
		}
		explore.WorkerMain(ck.Worker, tier, i, n, only, marker, time.Duration(ms)*time.Millisecond)
	case "replay":
		replay(os.Args[2])
	default:
		tier := "quick"
		if len(os.Args) > 2 {
			tier = os.Args[2]
		}
		if len(os.Args) > 3 && os.Args[2] == "--replay" {
			replay(os.Args[3])
			return
		}
		os.Exit(parent(os.Args[1], tier))
	}
}

func replay(path string) {
	b, err := os.ReadFile(path)
	if err != nil {
		fmt.Fprintln(os.Stderr, err)
		os.Exit(2)
	}
	var rp struct {
		Property string          `json:"property"`
		Tier     string          `json:"tier"`
		Case     json.RawMessage `json:"case"`
		Exe      string          `json:"exe"`
	}
	if err := json.Unmarshal(b, &rp); err != nil {
		fmt.Fprintln(os.Stderr, err)
		os.Exit(2)
	}
	var cs struct {
		Index int64 `json:"index"`
	}
	json.Unmarshal(rp.Case, &cs)
	ck, ok := checks.Registry[rp.Property]
	if !ok {
		fmt.Fprintln(os.Stderr, "unknown property", rp.Property)
		os.Exit(2)
	}
	if rp.Exe != "" {
		// the case was found by another build of the harness (e.g. the width-narrowed one)
		if self, _ := os.Executable(); self != rp.Exe {
			if err := syscall.Exec(rp.Exe, []string{rp.Exe, "replay", path}, os.Environ()); err != nil {
				fmt.Fprintln(os.Stderr, "cannot exec", rp.Exe, err)
				os.Exit(2)
			}
		}
	}
	if ck.ReplayExe != "" {
		self, _ := os.Executable()
		if self != ck.ReplayExe {
			// this case needs another build of the harness (scheduler / narrowed)
			if err := syscall.Exec(ck.ReplayExe, []string{ck.ReplayExe, "replay", path}, os.Environ()); err != nil {
				fmt.Fprintln(os.Stderr, "cannot exec", ck.ReplayExe, err)
				os.Exit(2)
			}
		}
	}
	if ck.Replay != nil {
		msg, err := ck.Replay(rp.Case)
		if err == nil {
			if msg != "" {
				fmt.Printf("REPRODUCED property=%s %s\n", rp.Property, msg)
				os.Exit(1)
			}
			fmt.Println("case passed")
			return
		}
		if !errors.Is(err, checks.ErrUseWorker) {
			fmt.Fprintln(os.Stderr, "replay:", err)
			os.Exit(2)
		}
		// not a schedule case: replay through the worker, restricted to the case index
	}
	s := &explore.Shard{I: 0, N: 1, Only: cs.Index, Tier: rp.Tier}
	ck.Worker(s)
	if len(s.C.Violations) > 0 {
		for _, v := range s.C.Violations {
			fmt.Printf("REPRODUCED property=%s class=%s %s\n%s\n", v.Property, v.Class, v.Msg, v.Detail)
		}
		os.Exit(1)
	}
	fmt.Println("case passed")
}

func parent(prop, tier string) int {
	ck, ok := checks.Registry[prop]
	if !ok {
		fmt.Fprintln(os.Stderr, "unknown property", prop)
		return 2
	}
	if tier != "quick" && tier != "thorough" {
		fmt.Fprintln(os.Stderr, "tier must be quick or thorough")
		return 2
	}
	start := time.Now()
	budget := ck.QuickBudget
	if tier == "thorough" {
		budget = ck.ThoroughBudget
	}
	if ck.Parent != nil {
		return ck.Parent(prop, tier)
	}
	shards := ck.Shards
	if shards == 0 {
		shards = 16
	}
	horizon := 30 * time.Minute
	if tier == "thorough" {
		horizon = budget + 30*time.Minute
	}
	total, crashes, err := explore.RunSharded(explore.Options{Property: prop, Tier: tier, Shards: shards, Budget: budget, Horizon: horizon})
	if err != nil {
		fmt.Println("HARNESS-ERROR:", err)
		return 2
	}
	return checks.Finish(root, prop, tier, ck, total, crashes, start)
}

func init() {
	// deterministic map printing helper for evidence
	_ = sort.Strings
	_ = strings.Join
	_ = evid.Seed
}
