// fakegit is the model git as an executable named `git`, put first on PATH for
// CLI-level runs. It reads $FAKEGIT_DIR/repo.gob and plan.json and appends one
// JSON record per invocation to log.jsonl.
package main

import (
	"bytes"
	"encoding/gob"
	"encoding/json"
	"fmt"
	"os"
	"path/filepath"
	"syscall"

	"verif/modelgit"
	"verif/mrepo"
)

func main() {
	dir := os.Getenv("FAKEGIT_DIR")
	if dir == "" {
		fmt.Fprintln(os.Stderr, "fakegit: FAKEGIT_DIR not set")
		os.Exit(127)
	}
	var repo mrepo.Repo
	f, err := os.Open(filepath.Join(dir, "repo.gob"))
	if err != nil {
		fmt.Fprintln(os.Stderr, "fakegit:", err)
		os.Exit(127)
	}
	if err := gob.NewDecoder(f).Decode(&repo); err != nil {
		fmt.Fprintln(os.Stderr, "fakegit:", err)
		os.Exit(127)
	}
	f.Close()
	if repo.Missing == nil {
		repo.Missing = map[mrepo.ID]bool{}
	}
	var plan modelgit.Plan
	if b, err := os.ReadFile(filepath.Join(dir, "plan.json")); err == nil {
		json.Unmarshal(b, &plan)
	}
	args := os.Args[1:]
	kind, _, _ := modelgit.Classify(args)
	// n-th invocation of this kind = number of records of the kind already logged
	nth := 0
	logPath := filepath.Join(dir, "log.jsonl")
	if b, err := os.ReadFile(logPath); err == nil {
		dec := json.NewDecoder(bytes.NewReader(b))
		for dec.More() {
			var inv modelgit.Invocation
			if dec.Decode(&inv) != nil {
				break
			}
			if inv.Kind == kind {
				nth++
			}
		}
	}
	// reserve the slot before running, so that a concurrent same-kind
	// invocation (there is none in git-sizer) would still be counted
	env := modelgit.NewEnv(&repo, &plan)
	exit, inv := env.Run(args, os.Environ(), os.Stdin, os.Stdout, nth)
	if lf, err := os.OpenFile(logPath, os.O_APPEND|os.O_CREATE|os.O_WRONLY, 0o644); err == nil {
		b, _ := json.Marshal(inv)
		lf.Write(append(b, '\n'))
		lf.Close()
	}
	if exit < 0 {
		if exit == -13 {
			// died writing to a closed pipe
			syscall.Kill(os.Getpid(), syscall.SIGPIPE)
		}
		syscall.Kill(os.Getpid(), syscall.Signal(-exit))
		select {}
	}
	if exit != 0 {
		fmt.Fprintf(os.Stderr, "fatal: model git: %s exits %d\n", kind, exit)
	}
	os.Exit(exit)
}
