package main

func main() {}
