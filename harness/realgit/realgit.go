// Package realgit materialises a model repository on disk (loose objects
// written byte-for-byte, so ids equal the model's) and runs the real git on it
// with exactly the argument vectors git-sizer uses.
package realgit

import (
	"bytes"
	"compress/zlib"
	"fmt"
	"os"
	"os/exec"
	"path/filepath"
	"strings"

	"verif/mrepo"
)

// GitBin is the real git executable.
var GitBin = func() string {
	for _, p := range []string{"/usr/bin/git", "/usr/local/bin/git", "/bin/git"} {
		if _, err := os.Stat(p); err == nil {
			return p
		}
	}
	return "git"
}()

// CleanEnv is the scrubbed environment for every real-git and CLI run.
func CleanEnv(home string, extra ...string) []string {
	env := []string{
		"PATH=/usr/bin:/bin",
		"HOME=" + home,
		"XDG_CONFIG_HOME=" + home,
		"GIT_CONFIG_NOSYSTEM=1",
		"GIT_CONFIG_GLOBAL=/dev/null",
		"LC_ALL=C",
		"TZ=UTC",
	}
	return append(env, extra...)
}

func writeLoose(gitDir string, o *mrepo.Object) error {
	var b bytes.Buffer
	zw := zlib.NewWriter(&b)
	fmt.Fprintf(zw, "%s %d\x00", o.Kind, len(o.Body))
	zw.Write(o.Body)
	zw.Close()
	dir := filepath.Join(gitDir, "objects", string(o.ID[:2]))
	if err := os.MkdirAll(dir, 0o755); err != nil {
		return err
	}
	return os.WriteFile(filepath.Join(dir, string(o.ID[2:])), b.Bytes(), 0o444)
}

// Materialise writes r as a bare repository at dir (dir must not exist).
// Virtual blobs cannot be materialised.
func Materialise(r *mrepo.Repo, dir string) error {
	for _, d := range []string{"objects/info", "objects/pack", "refs/heads", "refs/tags"} {
		if err := os.MkdirAll(filepath.Join(dir, d), 0o755); err != nil {
			return err
		}
	}
	for _, id := range r.Order {
		o := r.Objects[id]
		if o.Virtual {
			return fmt.Errorf("virtual blob %s cannot be materialised", id)
		}
		if r.Missing[id] {
			continue
		}
		if err := writeLoose(dir, o); err != nil {
			return err
		}
	}
	for _, ref := range r.Refs {
		p := filepath.Join(dir, ref.Name)
		if err := os.MkdirAll(filepath.Dir(p), 0o755); err != nil {
			return err
		}
		if err := os.WriteFile(p, []byte(string(ref.ID)+"\n"), 0o644); err != nil {
			return err
		}
	}
	head := r.Head
	if head == "" {
		head = "ref: refs/heads/master"
	}
	if err := os.WriteFile(filepath.Join(dir, "HEAD"), []byte(head+"\n"), 0o644); err != nil {
		return err
	}
	var cfg strings.Builder
	cfg.WriteString("[core]\n\trepositoryformatversion = 0\n\tfilemode = true\n\tbare = true\n")
	cfg.WriteString(ConfigText(r.Config))
	return os.WriteFile(filepath.Join(dir, "config"), []byte(cfg.String()), 0o644)
}

// ConfigText renders config entries as gitconfig text.
func ConfigText(entries []mrepo.ConfigEntry) string {
	var cfg strings.Builder
	for _, c := range entries {
		i := strings.IndexByte(c.Key, '.')
		j := strings.LastIndexByte(c.Key, '.')
		if i < 0 {
			continue
		}
		sec, sub, name := c.Key[:i], "", c.Key[j+1:]
		if j > i {
			sub = c.Key[i+1 : j]
		}
		if sub != "" {
			fmt.Fprintf(&cfg, "[%s \"%s\"]\n", sec, strings.NewReplacer(`\`, `\\`, `"`, `\"`).Replace(sub))
		} else {
			fmt.Fprintf(&cfg, "[%s]\n", sec)
		}
		if c.Value == "\x00novalue" {
			fmt.Fprintf(&cfg, "\t%s\n", name)
		} else {
			fmt.Fprintf(&cfg, "\t%s = \"%s\"\n", name, strings.NewReplacer(`\`, `\\`, `"`, `\"`, "\n", `\n`, "\t", `\t`).Replace(c.Value))
		}
	}
	return cfg.String()
}

// Run runs the real git as git-sizer would (same leading options and
// environment), returning stdout, stderr and the exit status.
func Run(gitDir string, stdin []byte, args ...string) (stdout, stderr []byte, exit int) {
	full := append([]string{"--no-replace-objects", "-c", "advice.graftFileDeprecated=false"}, args...)
	cmd := exec.Command(GitBin, full...)
	cmd.Env = CleanEnv("/nonexistent-home", "GIT_DIR="+gitDir, "GIT_GRAFT_FILE=/dev/null")
	cmd.Stdin = bytes.NewReader(stdin)
	var o, e bytes.Buffer
	cmd.Stdout, cmd.Stderr = &o, &e
	err := cmd.Run()
	if err != nil {
		if ee, ok := err.(*exec.ExitError); ok {
			exit = ee.ExitCode()
		} else {
			exit = -1
		}
	}
	return o.Bytes(), e.Bytes(), exit
}

// RunPlain runs real git with arbitrary arguments in dir (for repository surgery).
func RunPlain(dir string, env []string, args ...string) ([]byte, error) {
	cmd := exec.Command(GitBin, args...)
	cmd.Dir = dir
	cmd.Env = append(CleanEnv("/nonexistent-home"), env...)
	return cmd.CombinedOutput()
}
